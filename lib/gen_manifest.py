#!/usr/bin/env python3
"""Regenerates MANIFEST.json from lib/manifest_meta.py (kept in one place so that it is always valid)."""
import json, os, subprocess, sys
ROOT = os.path.dirname(os.path.dirname(os.path.abspath(__file__)))
sys.path.insert(0, os.path.join(ROOT, "lib"))
from manifest_meta import META, NOT_APPLICABLE, ENGINES, NOTES

hooks_commits = subprocess.run(["git", "-C", "/repo", "log", "--format=%H %s"], capture_output=True, text=True).stdout.splitlines()
hook_shas = [l.split()[0] for l in hooks_commits if l.split(" ", 1)[1].startswith("verif hooks")]
checks = []
for pid in sorted(META):
    m = META[pid]
    checks.append({
        "property_id": pid,
        "quick_cmd": f"./check {pid} --tier quick",
        "thorough_cmd": f"./check {pid} --tier thorough",
        "evidence_file": f"/verif/evidence/{pid}.json",
        "replay_cmd_template": f"./check {pid} --replay {{path}}",
        "engine": m["engine"],
        "level_claimed": {"category": m["level"], "text": m["text"], "design_ref": m["design_ref"]},
        "level_note": m["note"],
        "technique": m["technique"],
    })
manifest = {
    "version": 1,
    "setup_cmd": "./check --setup",
    "hooks": {
        "guard": "cargo feature `verif` (teos-common/verif, teos/verif, watchtower-plugin/verif)",
        "enable": "the harness crate /verif/harness depends on /repo's crates by path with features=[\"verif\"]; binaries are built with `cargo build --features verif`",
        "baseline_off_cmd": "cd /repo && cargo test --workspace --no-fail-fast --offline",
        "source_commits": hook_shas,
        "add_only": True,
    },
    "engines": ENGINES,
    "checks": checks,
    "not_applicable": NOT_APPLICABLE,
    "notes": NOTES,
}
json.dump(manifest, open(os.path.join(ROOT, "MANIFEST.json"), "w"), indent=1)
print("MANIFEST.json:", len(checks), "checks,", len(NOT_APPLICABLE), "not claimed")
