"""Per-property check definitions: which engines run (per tier), how a case is defined/what makes it
non-trivial, the level claimed and the assumptions written into the evidence file."""


def _c17(tier):
    return [{"engine": "c17", "shards": 16, "args": {"cases": 2500 if tier == "thorough" else 120}}]


def _c19(tier):
    if tier == "thorough":
        return [{"engine": "c19", "shards": 16, "args": {"max_n": 3, "max_len": 9, "random_ops": 20000}}]
    return [{"engine": "c19", "shards": 16, "args": {"max_n": 3, "max_len": 6, "random_ops": 3000}}]


def _c20(tier):
    return [{"engine": "c20", "shards": 8, "args": {"cases": 40000 if tier == "thorough" else 3000}}]


def _e1(plan_quick, plan_thorough, extra=None):
    """plan = [(bias, cases per shard)]"""
    def f(tier):
        plan = plan_thorough if tier == "thorough" else plan_quick
        engines = [{"engine": "e1", "shards": 16, "args": {"bias": b, "cases": n}} for b, n in plan]
        # the same histories, model and monitors against the real teosd binary (E3)
        if tier == "thorough":
            engines += [{"engine": "e3", "shards": 4, "timeout_s": 3000, "args": {"bias": b, "cases": max(40, n // 8), "parallel": 4}} for b, n in plan]
        else:
            engines += [{"engine": "e3", "shards": 4, "args": {"bias": plan[0][0], "cases": 12, "parallel": 4}}]
        if extra:
            engines += extra(tier)
        return engines
    return f


E1_RULE = ("case = one seeded history of 30-150 steps over 2-4 users and 4-10 channels against the real Gatekeeper/Watcher/Responder/Carrier/DBM/InternalAPI/"
           "ChainMonitor+SpvClient (SimChain as block source, SimNode behind bitcoincore_rpc::Client): register/renew, add (valid, garbled, "
           "authenticated-but-not-a-transaction, trailing bytes, valid for another dispute, empty; sizes around every slot boundary; shared locators; "
           "updates; resubmission in every lifecycle state), get_appointment / get_subscription_info with good and bad signatures, mined blocks "
           "(disputes, penalties in the same / a later block, several per block), multi-block polls, reorgs (depth 1..8, up to 100 with bias 'chain'), "
           "advances of up to 110 blocks, scripted node verdicts (-25 -26 -27 -22 other, garbage), txindex on/off, restarts. After EVERY step the "
           "TowerModel monitors compare replies, sqlite rows, private-API answers and the node RPC log with the model. ")

E3_RULE = ("The same generator, model and monitors also run against the real teosd binary (engine e3: teosd built from the working tree with the verif feature, "
           "bootstrapped by its own main.rs against a fake bitcoind speaking JSON-RPC over TCP and backed by the same SimChain/SimNode; user requests over the HTTP API "
           "(over the internal gRPC API when the HTTP front-end cannot carry them: bodies beyond its length limits, empty signatures), operator requests over the mTLS "
           "gRPC API, restarts alternately SIGKILL and the stop RPC; polls are held by the fake bitcoind until the driver grants them, so block delivery is as "
           "deterministic as in-process). A panic message or an unexpected exit of teosd is a violation; a port collision or start-up failure is inconclusive. ")

E1_ASSUME = [
    "the outside world is simulated at the tower's two real boundaries (BlockSource, bitcoind JSON-RPC); histories a real chain cannot produce are not generated",
    "locator collisions (two transaction ids sharing 16 bytes) cannot be generated and are not covered",
    "sequential histories only (one request or block event at a time); interleavings are the business of C10/C11",
    "the in-process bootstrap is a copy of main.rs's sequence; the e3 engine runs the same histories against the real binary (fewer of them)",
    "an 'already in chain' (-27) verdict and a garbage node reply are not classified by the statements: several outcomes are tolerated there",
]

CHECKS = {
    "C01": {
        "bins": True,
        "engines": _e1([("mixed", 150), ("chain", 50)], [("mixed", 3000), ("chain", 1000), ("expiry", 500)]),
        "level": "exploration",
        "rule": E1_RULE + E3_RULE + "C01 oracle: every watched appointment whose dispute is delivered in a block (or sits in the six-block window at acceptance) creates an "
                "obligation: penalty already known to the node / submitted inside the delivery window; verdict accept => reported dispute_responded with "
                "exactly that dispute and penalty from then on; undecryptable or rejected => only that appointment disappears. non-trivial = history with "
                ">= 1 obligation; distinct = distinct operation lists.",
        "assumptions": E1_ASSUME,
    },
    "C02": {
        "bins": True,
        "engines": _e1([("mixed", 150), ("chain", 50)], [("mixed", 3000), ("chain", 1000), ("expiry", 500)]),
        "level": "exploration",
        "rule": E1_RULE + E3_RULE + "C02 oracle: every sendrawtransaction in the RPC log must be justified at its position by the model (penalty of an appointment being "
                "triggered in that window, penalty of a responded appointment, dispute only for a responded appointment whose confirming block was just "
                "disconnected; never for dropped / purged / untriggered ones); dispute_responded only when backed by a send or by the node having it. "
                "non-trivial = history with >= 1 broadcast.",
        "assumptions": E1_ASSUME,
    },
    "C04": {
        "bins": True,
        "engines": _e1([("chain", 130), ("mixed", 50)], [("chain", 2500), ("mixed", 1000)]),
        "level": "exploration",
        "rule": E1_RULE + E3_RULE + "C04 oracle per responded appointment: (a) dispute+penalty re-submitted by the end of the first block connected after its confirming "
                "block was disconnected; (b) while unconfirmed the tip never gets 12 blocks above the last submission; (c) after every completed poll a "
                "tracker row with confirmed=1 at height h has its penalty in the delivered block at h; (d) it disappears with a refund exactly when the "
                "penalty is 100 deep; (e) rejected re-submission => dropped without refund. non-trivial = history exercising at least one of (a)-(d).",
        "assumptions": E1_ASSUME,
    },
    "C05": {
        "bins": True,
        "engines": lambda tier: [{"engine": "e4", "shards": 4, "timeout_s": 6000, "args": {"family": "c05", "scenarios": 400 if tier == "thorough" else 10, "parallel": 12 if tier == "thorough" else 10}}],
        "level": "fault_enumeration",
        "rule": "case = one scenario against the real watchtower-client binary (driven over its stdin/stdout plugin protocol) and 1-3 scripted fake towers: 3-7 commitment "
                "revocations (half of the scenarios notify one of them twice), each tower answering every add_appointment per a random script over {accept, subscription "
                "error, API error codes, non-JSON, wrong shape, signature by another key, undecodable signature, empty body, connection closed without answer, a valid acceptance whose body breaks off half-way, HTTP 500}; fault "
                "plan per scenario: none / tower outage during some notifications / SIGKILL when the n-th request reaches a tower (before or after its answer) / abort at the "
                "k-th client commit point (hooked); killed clients are restarted on the same directory and the unanswered notification is sent again. Every fourth scenario is a "
                "retry-path crash sweep instead: appointments pending for a tower that was down, a reference restart with the tower up records the hook points hit until "
                "everything is delivered, then one run per hook point k (abort at k, restart) which must end delivered with exactly one record each. Oracle (sqlite file read "
                "only): after every answered notification, after every restart and after the retry rounds, for every answered revocation and every registered, non-misbehaving "
                "tower exactly one of: receipt row verifying under the tower id / pending row with the full body / invalid row with the full body; every notification is "
                "answered; no panic text. Every scenario (other than the sweeps) ends with an abandon phase: two more towers A and B are registered, three more revocations "
                "end up invalid at both / pending at A and invalid at B / pending at both, then `abandontower A`: B's three records (and everybody else's) are checked at "
                "once, after a client restart, and B's invalid / pending counts reported by gettowerinfo are compared with the database. distinct = distinct (tower scripts, fault plan).",
        "assumptions": [
            "fake towers speak HTTP on loopback; Tor / TLS / a real lightningd are replaced by protocol-level fakes",
            "moving a record takes the client two steps under one lock: a double record is only reported if it persists over 4 reads 120 ms apart",
            "wall-clock is only a watchdog (25 s per call, 240 s per scenario): its firing is counted as inconclusive unless the client shows panic text",
        ],
    },
    "C13": {
        "bins": True,
        "engines": lambda tier: [{"engine": "e4", "shards": 4, "timeout_s": 6000, "args": {"family": "c13", "scenarios": 400 if tier == "thorough" else 12, "parallel": 16 if tier == "thorough" else 12}},
                                 {"engine": "e3p", "shards": 4, "timeout_s": 3000, "args": {"cases": 15 if tier == "thorough" else 2}}],
        "level": "fault_enumeration",
        "rule": "case = one outage/recovery scenario against the real client binary (max-retry-time 2-3 s, auto-retry-delay 3-4 s, max-interval 1 s) and one fake tower: error kind "
                "in {connection refused, subscription error then renewable, garbage replies, connection refused + client restart, plain rejection, refused then garbage}; "
                "recovery instant in {0.3 .. 7.5 s} after the first failure (first back-off interval, between retries, around give-up, while idle, after auto-retry fired); new "
                "revocations arrive while the retrier is in each state; manual retrytower in settled states. Oracle: while failing no more than 12 requests per locator per "
                "second reach the tower and after give-up it is shown unreachable with every notified appointment pending; after recovery, within max-retry-time + "
                "auto-retry-delay + 2 max-intervals + 8 s, it is shown reachable with nothing pending and every notified appointment has a verifying receipt; the hooked "
                "retry-loop trace never shows two loops of one tower active at once; retrytower is accepted in the documented settled states; no panic text. "
                "Every second scenario ends with a flap: right after the retrier has delivered, the tower goes down again, one more revocation arrives, the tower is back "
                "250 ms later; that revocation too must be delivered within the same bound. The 'shown unreachable after give-up' check waits up to 12 s for the status "
                "to settle (the give-up instant is the product's wall clock). Every sixth scenario is the failed-retrier kind instead: subscription error + a tower "
                "answering renewals with correctly signed receipts that do not extend the subscription (a permanent failure of the retry) until the tower is shown in "
                "subscription_error with everything pending (20 s, else inconclusive); the tower then renews properly and either retrytower (documented for that state: "
                "must be accepted) or one more revocation must get everything delivered within the same bound. After a give-up, retrytower is also asked while the tower is "
                "still failing and the status watched for 2.5 s: never reachable with data pending. Every eighth scenario is the revocation-mid-delivery kind: tower "
                "down, one revocation, tower back answering after 1.2 s and accepting only that first request (garbage afterwards), a second revocation 1.0 s into the "
                "delivery, then 3 s of status observations: shown reachable with data pending for more than 600 ms of consecutive observations is a violation; then "
                "the tower works and everything must be delivered within the bound. distinct = distinct (kind, recovery instant, manual retry, scenario id).",
        "assumptions": [
            "the product defines its back-off in wall-clock seconds: bounds are >= 3x the configured delays plus 8 s slack; unbounded 'eventually' is restated as this bound",
            "one tower per scenario; timing-independent signals (missing rows, floods, overlapping loops, panic text) are verdicts immediately",
        ],
    },
    "C14": {
        "bins": True,
        "engines": lambda tier: [{"engine": "e4", "shards": 4, "timeout_s": 6000, "args": {"family": "c14", "scenarios": 300 if tier == "thorough" else 8, "parallel": 10 if tier == "thorough" else 8}}],
        "level": "exploration",
        "rule": "case = one reply of a fake tower to the real client binary: to registertower or to add_appointment, either a raw misbehaviour (non-JSON, wrong shape, signature "
                "by another key, undecodable signature, empty, 3 MB body, HTTP 500, connection closed) or a structured mutation of a valid reply (every field dropped / null / "
                "string / number / negative / huge / array / empty / zero / truncated / odd length; correctly signed registrations that do not extend expiry or slots, incl. more slots with an earlier expiry and the reverse). Oracle: the client's view "
                "of (slots, expiry) after a registration reply either is unchanged or grew in both; a "
                "registration is recorded only if the stored receipt verifies under the tower id the user gave and strictly extends the previous one; an acknowledgement signed "
                "by another key => status misbehaving, proof row persisted, zero further requests to that tower on later revocations; after every reply the process is alive, "
                "stderr has no panic text, listtowers answers and the next notification is answered. Each client process ends with the retry-path variant: the tower is down when "
                "the revocation arrives, the retrier idles, the tower comes back and acknowledges the retried appointment with a signature by another key => misbehaving + proof; "
                "then the client is killed and restarted on the same data directory: zero requests may reach that tower (at start-up or on a new revocation) and it is still "
                "shown as misbehaving. Every second misbehaviour case goes on with the user registering again with the proven-misbehaving tower (valid, extending receipt) and two more "
                "revocations: no appointment request may reach that tower and the proof must stay on disk. Every third client process also gets two notifications written back to back "
                "(two channels revoking together) for a tower that answers both 300 ms late with a signature by another key: both hooks answered, no panic text, tower shown "
                "misbehaving, proof on disk, next notification answered. The retry-path verdict is decided on the tower's log (was the wrongly signed reply served?), not on the clock. "
                "distinct = distinct (endpoint, reply kind).",
        "assumptions": ["6 replies per client process, each against a fresh tower that is abandoned afterwards", "the retry path is exercised by C05/C13 with the same reply kinds"],
    },
    "C06": {
        "bins": True,
        "engines": _e1([("auth", 150), ("mixed", 50), ("expiry", 40)], [("auth", 3000), ("mixed", 1500), ("expiry", 1000)]),
        "level": "exploration",
        "rule": E1_RULE + E3_RULE + "C06 oracle: a request succeeds iff (by construction) its signature is a correct one by a registered, unexpired user over exactly the "
                "request's message (mutations: other message, truncated, one character changed, non-zbase32, empty, unregistered key, and a correct signature the same signer produced for an earlier, different request replayed here); every failure is an "
                "authentication error and leaves the database byte-identical (likewise the subscription error a registered user gets after the expiry height, inside the grace period); after every request all records of every other user are unchanged; "
                "get_subscription_info lists only the signer's locators. non-trivial = history with >= 1 rejected signature.",
        "assumptions": E1_ASSUME,
    },
    "C08": {
        "bins": True,
        "engines": _e1([("mixed", 150), ("expiry", 40)], [("mixed", 3000), ("expiry", 1000), ("chain", 500)],
                       lambda tier: [{"engine": "e1o", "shards": 16, "args": {"cases": 10 if tier == "thorough" else 2, "max_faults": 40}}]),
        "level": "exploration",
        "rule": E1_RULE + E3_RULE + "Plus (engine e1o, stalled reorgs only): after five of each history's polls the node reorganises 1 / 2 / 7 / 8 / 12 blocks away and the first block of the new "
                "branch cannot be downloaded, so the poll disconnects and stops at the fork point (the SPV client keeps that progress and the tower goes on serving requests there); a user "
                "registers and submits a fresh appointment: the receipt's start_block must be the fork point's height. C08 oracle: every successful register/add reply is verified with the client-side verifier (RegistrationReceipt::verify, "
                "AppointmentReceipt::verify) under the tower id, rebuilt from exactly the returned fields; start_block == model height (also after "
                "disconnections); slots/expiry equal the users row; stored row and get_appointment read-back equal the last accepted version byte for byte. "
                "non-trivial = history with >= 1 receipt verified.",
        "assumptions": E1_ASSUME,
    },
    "C09": {
        "bins": True,
        "engines": _e1([("expiry", 150), ("mixed", 50)], [("expiry", 3000), ("mixed", 1500)]),
        "level": "exploration",
        "rule": E1_RULE + E3_RULE + "C09 oracle: configurations (slots, duration, grace) from small grids incl. 1/0; add/get succeed iff height < expiry and the error "
                "states the expiry; registration = (height, height+duration), renewal = +duration / +slots; the user row with all appointments and trackers "
                "vanishes at the first delivered block with height >= expiry + grace, not earlier, others untouched, also across reorgs and multi-block "
                "polls. non-trivial = history with >= 1 expiry error, renewal or purge.",
        "assumptions": E1_ASSUME + ["u32 overflow corners of subscription arithmetic are outside the stated quantifier and not generated"],
    },

    "C07": {
        "bins": True,
        "engines": _e1([("mixed", 150), ("expiry", 40)], [("mixed", 3000), ("expiry", 1000), ("chain", 500)], lambda tier: [{"engine": "c07f", "shards": 1}]),
        "level": "exploration",
        "exhaustive": "the slot formula is evaluated for EVERY blob length 0..4 MiB (gRPC transport limit) against integer arithmetic; the ledger histories are sampled",
        "rule": E1_RULE + E3_RULE + "C07 oracle: ledger granted = available + occupied (max(1, ceil(len/2048)) per held row) + forfeited after every step, with "
                "'available' read three ways that must agree: the reply, get_user (memory), the users row (disk); acceptance only if the balance stays >= 0; "
                "replacement moves the balance by the difference; refunds only at 100-confirmation completion. non-trivial = history with receipts and ledger checks.",
        "assumptions": E1_ASSUME,
    },
    "C03": {
        "bins": True,
        "engines": lambda tier: [{"engine": "e1c", "shards": 16, "args": {"cases": 40 if tier == "thorough" else 3, "max_points": 3000 if tier == "thorough" else 500}},
                                 {"engine": "e3c", "shards": 4, "timeout_s": 6000, "args": {"cases": 30 if tier == "thorough" else 3, "max_faults": 400 if tier == "thorough" else 60, "parallel": 4}}],
        "level": "fault_enumeration",
        "rule": "fault space = for each history H (an E1 history of 12-40 steps that passed every sequential monitor; 1000 slots per registration so a lost request "
                "cannot cascade; plus as many scripted 'lifecycle' histories that drive trackers to their 100th confirmation and subscriptions past their expiry + grace "
                "one block per poll, of which only the crash points of that final window are enumerated): EVERY crash point hit inside an operation (before/after each durable write, before/after each explicit commit, before every node "
                "RPC and every block-source call) plus the durable-write points and a sample of the download points of every bootstrap; and for every multi-block "
                "poll a failed download of its 1st..4th block followed by a restart; and for a sample of the crash points inside a poll that is followed by mining and another "
                "poll, the same crash with those blocks mined while the tower is down (only if every penalty in them had reached the node's mempool by then). Each fault = one full re-execution of H: the observer unwinds at the k-th point, "
                "all tower objects are dropped (sqlite rolls back open transactions), the bootstrap of main.rs runs again on the same file, the request in flight is "
                "re-issued (a registration only if it did not take effect), H continues. Oracle: restart succeeds with the same tower id; from the crash onwards the "
                "database after EVERY operation equals the uninterrupted run's (users, appointments byte for byte, trackers with their transactions and confirmation, "
                "last known block), except that the in-flight user's balance may be short by at most that request's cost and never higher; no dangling rows. "
                "non-trivial = fault actually reached; distinct = distinct (history, fault). Second engine (e3c), same oracle against the real teosd binary: the "
                "uninterrupted reference run (model-checked, real main.rs bootstrap, fake bitcoind over TCP) records every hook point each teosd process hits and every "
                "bitcoind request it makes; faults = abort() of the process at its k-th hook point (TEOS_VERIF_ABORT_AT: before/after each durable write and explicit "
                "commit - a real process death, sqlite journal left as is) and SIGKILL when its j-th bitcoind request arrives (first / last of the bootstrap's cache "
                "downloads and every request after them), a third of them once more with the history's next blocks mined while teosd is down; teosd is then started again "
                "on the same data directory. Histories: lifecycle (completion / expiry run-out), "
                "scripted bootstrap situations (backlog mined while down, restart before the first block, late appointment), short generated ones.",
        "assumptions": E1_ASSUME[:2] + [
            "e1c: process death is simulated by unwinding and dropping every tower object in-process; e3c: real process death (abort / SIGKILL) of the real binary, the page cache survives (no power-loss / torn-page semantics)",
            "histories poll right after mining, so that the only undelivered blocks at a crash are those of the poll in flight",
            "one fault per re-execution",
        ],
    },
    "C10": {
        "bins": True,
        "engines": lambda tier: [{"engine": "e2", "shards": 16, "args": {"schedules": 3000 if tier == "thorough" else 150, "free": 150 if tier == "thorough" else 10, "real": 40 if tier == "thorough" else 3}},
                                 {"engine": "e3s", "shards": 4, "timeout_s": 3000, "args": {"cases": 60 if tier == "thorough" else 4, "rounds": 6, "threads": 6}}],
        "level": "exploration",
        "rule": "case = one execution of a scenario: a tower prepared by a model-checked sequential setup, then 2-3 real OS threads (chain thread delivering one "
                "poll = 1 block, or a disconnection + 2 blocks; one or two API threads with register / add (new, same twice, update, late) / get_appointment / "
                "get_subscription_info; 17 scenarios incl. a renewal racing with the block that purges that user, a late appointment racing with the reorg of the block that "
                "holds its penalty, an appointment racing with the block that holds its dispute and its penalty, and two late appointments racing with the node mining the "
                "penalty - a node event executed by the chain thread inside the concurrent phase - and the tower processing that block) under the serialising PCT scheduler (every hooked lock acquisition/release/condvar wait is a scheduling point; 0-3 "
                "priority change points) or free-running with seeded delays; and, unscheduled, against the real teosd binary (prepared database put in place, teosd "
                "bootstrapped by its own main.rs, API threads as real HTTP/gRPC clients and the poll granted by the fake bitcoind after seeded 0-4 ms delays; the "
                "counters real_teosd_matched_reference[scenario#k] show which sequential orders the real runs looked like). A third engine (e3s) soaks the real binary: 6 client "
                "threads x 6 rounds of 8-17 requests each over 2-3 users and 4-6 channels (register, add of 3 valid versions per channel with sizes around the slot "
                "boundary, reads) while a block (2/3 of them with the dispute of a held channel) is mined and delivered; after every round (quiescent) it checks: every "
                "request answered, memory == disk, per user slots granted by the registrations it saw succeed == available + occupied, exactly one row per acknowledged "
                "(user, channel) holding an acknowledged version, every delivered dispute answered for every holder with a penalty the node was given, every receipt "
                "verifies (counters soak_overlapping_request_pairs / soak_requests_overlapping_a_block_event show the concurrency actually obtained). Oracle: (replies with all fields, final users/appointments/trackers rows, multiset "
                "of broadcasts) must equal the outcome of SOME sequential interleaving of the same operations (block events atomic), the sequential outcomes "
                "being produced by scripted schedules on identical towers; the witness names the sequential outcome that explains most of the durable state (fewest state "
                "differences other than the start_block column first), tracker differences are labelled missing / extra / confirmation; PCT change points range over "
                "acquisitions and releases of the whole execution. non-trivial = execution with >= 1 context switch between threads; distinct = "
                "distinct (scenario, schedule decision string).",
        "assumptions": [
            "interleavings finer than lock granularity (atomics, inside sqlite) are not controlled by the serial scheduler (the free-running mode samples them)",
            "at most 3 threads; schedules are sampled (PCT), not enumerated; reorg scenarios disconnect one block",
            "the height kept for an unconfirmed penalty (InMempoolSince) is internal bookkeeping and not part of the compared outcome",
        ],
    },
    "C11": {
        "bins": True,
        "engines": lambda tier: [{"engine": "e2", "shards": 16, "args": {"schedules": 3000 if tier == "thorough" else 150, "free": 150 if tier == "thorough" else 10, "real": 40 if tier == "thorough" else 3}},
                                 {"engine": "e1", "shards": 16, "args": {"bias": "mixed", "cases": 1500 if tier == "thorough" else 80}},
                                 {"engine": "e1", "shards": 16, "args": {"bias": "chain", "cases": 800 if tier == "thorough" else 40}},
                                 {"engine": "e3", "shards": 4, "timeout_s": 3000, "args": {"bias": "mixed", "cases": 300 if tier == "thorough" else 12, "parallel": 4}},
                                 {"engine": "e3", "shards": 4, "timeout_s": 3000, "args": {"bias": "chain", "cases": 12 if tier == "thorough" else 1, "parallel": 4, "memcheck": 1}},
                                 {"engine": "e3s", "shards": 4, "timeout_s": 3000, "args": {"cases": 60 if tier == "thorough" else 4, "rounds": 6, "threads": 6}},
                                 {"engine": "e1o", "shards": 16, "args": {"cases": 8 if tier == "thorough" else 1, "max_faults": 300 if tier == "thorough" else 40}}],
        "level": "exploration",
        "rule": "three monitors over two engines (plus e1o: a sample of C12's outage faults - the node lost at a node RPC of a history for 0-2 polls, virtual retry clock - judged here only for "
                "'the tower is wedged': a poll or request that never returns, a thread waiting for a lock it holds itself or that a thread waiting for the node holds after the node is back, a panic) (plus e3: E1 histories against the real teosd binary, where a panic message on its output or an unexpected exit is the violation; a few of them with teosd running under valgrind memcheck - the bundled sqlite and libsecp256k1 are C - where any invalid access / use of uninitialised memory / fatal signal it reports is a violation; and the C10 scenarios run unscheduled against the real binary, where a request or block event that gets no answer in 20 s is the violation). (1) E2 scheduler: in every scheduled / free-running execution of the C10 scenarios the observer mediates every "
                "tower lock; a state in which no tower thread is enabled (circular wait over lock owners, or everybody waiting) is detected deterministically and "
                "reported with holders/waiters. (2) lock-order graph over everything executed; inversions are listed as predictions, only manifested circular "
                "waits are verdicts. (3) panic hook: any panic raised in tower code in any E2 execution or E1 history (incl. resubmission of appointments in "
                "every lifecycle state, reorgs, purges, node verdict scripts), plus a liveness probe (one more block + one request) after every E1 history. "
                "non-trivial = E2 execution with a context switch / E1 history with submissions in several lifecycle states.",
        "assumptions": E1_ASSUME[:4] + ["schedules are sampled, not enumerated; at most 3 threads", "how an outage is handled (nothing dropped, 'unavailable' answers, recovery bounds) is C12's business; only its wedge verdicts are shared"],
    },
    "C12": {
        "bins": True,
        "engines": lambda tier: [{"engine": "e1o", "shards": 16, "args": {"cases": 30 if tier == "thorough" else 3, "max_faults": 600 if tier == "thorough" else 80}},
                                 {"engine": "e3o", "shards": 4, "timeout_s": 6000, "args": {"cases": 24 if tier == "thorough" else 2, "max_faults": 40 if tier == "thorough" else 10, "parallel": 8}}],
        "level": "fault_enumeration",
        "rule": "fault space = for each history H (an E1 history of 25-65 steps that passed every sequential monitor): for EVERY node RPC issued in H an outage that "
                "starts exactly at that RPC (transport errors for RPCs, transient errors for every block-source call) and lasts k in {0,1,2} further polls, with and "
                "without H's next mined blocks arriving meanwhile; plus failures of 1-3 consecutive block-source calls at the start / middle / end of every poll with "
                ">= 4 calls; plus five idle outages per history (node down right after one of the history's polls, the next poll fails, the four endpoints must answer "
                "'unavailable', the node comes back on the same tip / on an equal-work sibling of it / one block short of it - a tip that is not better than the tower's - and "
                "the API must answer again within two polls; the run ends there). Tower calls run on worker threads whose every lock and condvar operation goes through the scheduler observer, so 'the call waits for the "
                "reachability signal holding these locks' is observed as a state; time is virtual (bounded waits expire only when the harness ticks the clock). "
                "Oracle (bounded progress): (1) the call that hit the outage never returns with its RPC given up; (1b) a call that neither returns nor parks itself waiting "
                "for the node while > 400 of its RPCs fail with transport errors has noticed the outage without waiting for it to end: violation (with the value of the "
                "reachability flag the public API consults); (1c) at every node RPC that fails during the outage after the first one (= a retry by a tower that has noticed) "
                "the reachability flag must still say unreachable - nothing has answered since; (2) once a call is waiting for the node, all four public endpoints answer 'unavailable'; (3) every poll issued during the outage returns; (4) after the node is back, within 2 polls and 3 clock "
                "ticks the interrupted call completes, the API is available again, and (5) from H's next poll on the database equals the uninterrupted run's "
                "(every breach answered, nothing dropped). non-trivial = fault reached; distinct = distinct (history, fault). Second engine (e3o), same oracle in real "
                "time against the real teosd binary: from teosd's k-th node RPC on the fake bitcoind drops every TCP connection without an answer (RPC and block "
                "source) - or, every second k, answers that RPC with headers and half of the body before dying (the node killed while answering); the operation in flight runs on a worker thread; while it waits the four public endpoints are probed over HTTP / gRPC (no answer within 20 s = "
                "the API hangs: violation); polls granted during the outage must return; after the node is back the operation must complete within 30 s (the Carrier's "
                "retry period is 10 s), the API must take work again and the database must equal the uninterrupted run's after every later operation.",
        "assumptions": E1_ASSUME[:2] + [
            "an outage takes down RPC and block source together; scripted at call granularity",
            "bounded progress replaces 'eventually': 2 polls + 3 ticks of the carrier's retry clock after the node is back",
            "blocks mined during the outage are the history's own next blocks, and only those without penalties (whose presence in a block would depend on what the tower had broadcast)",
        ],
    },
    "C15": {
        "engines": lambda tier: [{"engine": "e5c15", "shards": 16, "args": {"requests": 20000 if tier == "thorough" else 1200}}],
        "level": "exploration",
        "rule": "case = one HTTP/1.1 request sent over a raw socket to the real warp router (teos::api::http::serve on loopback) in front of the real InternalAPI over an "
                "E1 tower: per endpoint a valid request, or a structured mutation of one (drop / retype / empty / resize every field, non-hex characters, appointment "
                "sub-fields dropped / emptied / negative / huge, null appointment, nested JSON up to 65 levels, arrays / strings / numbers instead of the object, long "
                "multi-byte (non-ASCII) strings as wrong-typed field values / as the whole body / as unknown keys at random byte alignments), raw "
                "bytes, bodies padded to the size limit -1/0/+1, oversized bodies, every other method, unknown paths, missing content type; 5 of every 40 requests are "
                "sent while the tower believes bitcoind is unreachable. Oracle per request: an answer arrives; status is 200, 4xx or 503; for (existing endpoint, POST, "
                "acceptable size, JSON content type) a non-200 body is a JSON object {error, error_code} with a documented code and never 255, a 200 body carries "
                "the documented reply fields (registration receipts are verified); requests malformed by construction are never answered 200, valid registrations "
                "always are; every non-200 leaves the sqlite content unchanged and also what the tower reports from memory (get_subscription_info asked of the InternalAPI for every "
                "user of the world before and after: slots, expiry, locators); every fourth shard runs a tower whose subscription slots are u32::MAX/2, so the third "
                "registration of a user is the documented slot-overflow rejection (code 65; counted as slot_overflow_rejections); no 200 while unreachable; panic hook "
                "silent. distinct = distinct (method, path, body).",
        "assumptions": [
            "every request carries a correct Content-Length and either Content-Type: application/json or none: header games (wrong length, other media types) are outside the stated quantifier",
            "requests are sent one at a time on fresh connections",
            "semantic correctness of 200 replies beyond shape / receipt validity is the business of C01-C09",
        ],
    },
    "C16": {
        "bins": True,
        "engines": lambda tier: [{"engine": "e5c16", "shards": 16, "args": {"messages": 2500 if tier == "thorough" else 120}},
                                 {"engine": "e3p", "shards": 4, "timeout_s": 3000, "args": {"cases": 15 if tier == "thorough" else 2}}],
        "level": "exploration",
        "rule": "(second engine e3p: the two real binaries against each other - watchtower-client registered with a real teosd over real HTTP: every stored receipt verifies under "
                "the tower id, the tower's stored blob decrypts under the commitment txid to the penalty the client was given, getappointment through the client agrees with the "
                "tower before and after the breach is mined and answered (dispute txid, penalty txid, raw penalty), getsubscriptioninfo equals the tower's row; then the tower "
                "process is killed, a revocation arrives, the tower restarts on the same address and the client must deliver by itself.) "
                "case = one message exchange through the real router between the plugin's real client code (register, send_appointment, post_request + "
                "process_post_response for get_appointment / get_subscription_info) and a recording, scripted PublicTowerServices stub: generated request values "
                "(random ids / locators, blobs of 0..850 bytes, to_self_delay and all numbers at u32 boundaries, signature strings incl. unicode, quotes, escapes, "
                "control characters, trimmed to the endpoint's size limit) must be recorded by the stub field for field; scripted replies (all reply types, both "
                "AppointmentData variants, the three statuses, error statuses of every documented kind) must be parsed by the client into exactly the generated "
                "values (error codes included). Plus, per case: the three signed layouts re-parsed independently and shown injective under byte shifting, and "
                "serde_json serialise+parse identity for all 9 message shapes. distinct = distinct generated messages.",
        "assumptions": [
            "requests larger than the tower's per-endpoint body limit are outside the property and not generated",
            "GetAppointmentResponse.status is one of the three defined statuses (others are not representable on the wire)",
        ],
    },
    "C17": {
        "engines": _c17,
        "level": "exploration",
        "rule": "case = one random well-formed transaction (1-4 inputs/outputs, script/witness sizes 0..10 kB) encrypted under a random id "
                "plus one random (key, message) signature; for each: round trip, independent re-statement of the scheme, wrong id, id with one bit "
                "flipped, every single-bit flip (sampled for long blobs), truncations, extensions, trailing/short plaintext, locator prefix; "
                "signature recovery, other key, every message bit flip, every single-character substitution and every truncation of the signature "
                "string; all ordered pairs of distinct ids of the generated set. distinct_nontrivial = distinct ciphertexts + distinct signatures (hashed).",
        "assumptions": [
            "ECDSA's (r,-s) twin signature is not a single-character mutation and is outside the stated quantifier",
            "sampled, not exhaustive: a clean run says nothing about inputs not generated",
        ],
    },
    "C18": {
        "engines": lambda tier: [{"engine": "c18", "shards": 16, "args": {"sequences": 1200 if tier == "thorough" else 50}}],
        "level": "exploration",
        "rule": "case = one random sequence of 8-38 operations on the real WTClient + client DBM over 2-4 towers sharing 3-6 locators: register / renew (incl. "
                "renewals that do not strictly extend), receipt, pending, invalid, pending->accepted, pending->invalid (in the retrier's order), misbehaviour proof, "
                "abandon, in-memory status changes. After EVERY prefix: WTClient.towers == DBM::load_towers() == dictionary model; load_tower_record per tower == model "
                "(receipts, pending and invalid bodies byte for byte, proof); after abandon no row of any table references the tower and every other tower's rows are "
                "unchanged; every referenced appointment body is stored; a second client opened on a copy of the directory shows the same towers, the same user id, the "
                "status rule (proof => misbehaving, pending => temporary unreachable, else reachable) and queues exactly the towers with pending data for retry. "
                "distinct = distinct operation sequences.",
        "assumptions": [
            "operations the real plugin never performs (a second receipt / pending / invalid record for the same tower and locator) are not generated here: duplicate notifications are C05's business",
            "appointment bodies left without any referrer after an abandon are counted and reported, not judged (the statement does not require their deletion)",
        ],
    },
    "C19": {
        "engines": _c19,
        "level": "exploration",
        "exhaustive": "every sequence over {connect-empty, connect-fresh, connect-reappearing, connect-two-fresh, disconnect} up to the length bound, "
                      "for N = 1..3, is executed; the production sizes N = 6 and N = 100 are random walks (not exhaustive)",
        "rule": "case = one connect/disconnect sequence applied to the real TxIndex<Txid,BlockHash> and TxIndex<Locator,Transaction> (bootstrapped "
                "through TxIndex::new from validated blocks, as main.rs does) and to a list-of-blocks specification; after every operation every key "
                "of the universe and every block ever created is looked up (get, get_height) and compared. non-trivial = the sequence contains at "
                "least one disconnection; distinct = distinct (N, op sequence).",
        "assumptions": [
            "transaction ids are unique along any single active chain (as on a real chain); a key may re-appear only in a replacement block",
            "blocks are disconnected tip-first, as lightning-block-sync delivers them",
        ],
    },
    "C20": {
        "bins": True,
        "engines": lambda tier: _c20(tier) + [{"engine": "e3cfg", "shards": 1, "timeout_s": 3000, "args": {"cases": 600 if tier == "thorough" else 70}}],
        "level": "exploration",
        "exhaustive": "every option x (in file?, on command line?) with the other options random; all networks (known, unknown, main/test) x explicit/implicit "
                      "port x all 8 credential combinations x all 8 file/command-line placements; plus random combinations (not exhaustive)",
        "rule": "case = (teos.toml contents, command line) run through the real from_file + Opt::from_iter_safe (structopt) + patch_with_options + verify; "
                "oracle = documented precedence and refusal rule restated independently. distinct = distinct (file, command line) pairs. Second engine (e3cfg): what the "
                "teosd binary does with a file + command line. Every observable setting has three distinguishable values (documented default, file, command line: binds "
                "127.0.0.1/.2/.3, default / two free ports, network names, credentials differing per source, two cookie files) and the fake bitcoind listens on every "
                "candidate (address, port); observed: exit status 1 + message + zero bitcoind requests for a refusal; otherwise the one address where the HTTP API answers, the "
                "one where the private API listens, where bitcoind requests arrive and with which Authorization header, the network directory of the database, the slots / "
                "duration granted by a registration, (every third case) whether a restart with overwrite_key in the file / --overwritekey replaces the tower key, and (every "
                "fourth case) whether, with a bitcoind pruned above the tower's last known block, a restart goes ahead only when --forceupdate is on the command line. The "
                "first 40 cases sweep each of 10 options through none / file / command line / both.",
        "assumptions": [
            "configuration files are well-formed TOML with correctly typed values; command lines are ones the parser accepts",
            "btc_rpc_port = 0 is read as 'not set explicitly'",
            "the network names 'main' and 'test' (accepted by the code, not in the documented list) carry no expectation either way",
            "e3cfg needs the documented default ports (9814 8814 8332 18332 18443 38332 50051) free on the machine, else it reports inconclusive; the tor options and the debug flags are not observed at the binary level",
        ],
    },
}
