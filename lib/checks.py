"""Per-property check definitions: which engines run (per tier), how a case is defined/what makes it
non-trivial, the level claimed and the assumptions written into the evidence file."""


def _c17(tier):
    return [{"engine": "c17", "shards": 16, "args": {"cases": 2500 if tier == "thorough" else 120}}]


def _c19(tier):
    if tier == "thorough":
        return [{"engine": "c19", "shards": 16, "args": {"max_n": 3, "max_len": 9, "random_ops": 20000}}]
    return [{"engine": "c19", "shards": 16, "args": {"max_n": 3, "max_len": 6, "random_ops": 3000}}]


def _c20(tier):
    return [{"engine": "c20", "shards": 8, "args": {"cases": 40000 if tier == "thorough" else 3000}}]


CHECKS = {
    "C17": {
        "engines": _c17,
        "level": "exploration",
        "rule": "case = one random well-formed transaction (1-4 inputs/outputs, script/witness sizes 0..10 kB) encrypted under a random id "
                "plus one random (key, message) signature; for each: round trip, independent re-statement of the scheme, wrong id, id with one bit "
                "flipped, every single-bit flip (sampled for long blobs), truncations, extensions, trailing/short plaintext, locator prefix; "
                "signature recovery, other key, every message bit flip, every single-character substitution and every truncation of the signature "
                "string; all ordered pairs of distinct ids of the generated set. distinct_nontrivial = distinct ciphertexts + distinct signatures (hashed).",
        "assumptions": [
            "ECDSA's (r,-s) twin signature is not a single-character mutation and is outside the stated quantifier",
            "sampled, not exhaustive: a clean run says nothing about inputs not generated",
        ],
    },
    "C19": {
        "engines": _c19,
        "level": "exploration",
        "exhaustive": "every sequence over {connect-empty, connect-fresh, connect-reappearing, connect-two-fresh, disconnect} up to the length bound, "
                      "for N = 1..3, is executed; the production sizes N = 6 and N = 100 are random walks (not exhaustive)",
        "rule": "case = one connect/disconnect sequence applied to the real TxIndex<Txid,BlockHash> and TxIndex<Locator,Transaction> (bootstrapped "
                "through TxIndex::new from validated blocks, as main.rs does) and to a list-of-blocks specification; after every operation every key "
                "of the universe and every block ever created is looked up (get, get_height) and compared. non-trivial = the sequence contains at "
                "least one disconnection; distinct = distinct (N, op sequence).",
        "assumptions": [
            "transaction ids are unique along any single active chain (as on a real chain); a key may re-appear only in a replacement block",
            "blocks are disconnected tip-first, as lightning-block-sync delivers them",
        ],
    },
    "C20": {
        "engines": _c20,
        "level": "exploration",
        "exhaustive": "every option x (in file?, on command line?) with the other options random; all networks (known, unknown, main/test) x explicit/implicit "
                      "port x all 8 credential combinations x all 8 file/command-line placements; plus random combinations (not exhaustive)",
        "rule": "case = (teos.toml contents, command line) run through the real from_file + Opt::from_iter_safe (structopt) + patch_with_options + verify; "
                "oracle = documented precedence and refusal rule restated independently. distinct = distinct (file, command line) pairs.",
        "assumptions": [
            "configuration files are well-formed TOML with correctly typed values; command lines are ones the parser accepts",
            "btc_rpc_port = 0 is read as 'not set explicitly'",
            "the network names 'main' and 'test' (accepted by the code, not in the documented list) carry no expectation either way",
        ],
    },
}
