#!/bin/bash
# usage: try_seeded.sh <seeded dir> <property id> [tier]
# applies the seeded change to /repo, runs the check, reverts. Prints the verdict.
set -u
d=$1; p=$2; tier=${3:-quick}
cd /repo || exit 2
if ! git diff --quiet; then echo "/repo has uncommitted changes"; exit 2; fi
git apply "$d/patch.diff" || { echo "patch does not apply"; exit 2; }
cd /verif && ./check "$p" --tier "$tier" > /tmp/try_seeded.out 2> /tmp/try_seeded.err
rc=$?
git -C /repo checkout -- .
echo "== $d on $p: exit $rc"
grep -E "VIOLATION|KNOWN" /tmp/try_seeded.out | head -3
grep -E "signature:" /tmp/try_seeded.err | sort | uniq -c | head -5
tail -1 /tmp/try_seeded.err
