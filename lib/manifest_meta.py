ENGINES = [
    {"name": "pure (E6)", "path": "harness/src/pure_*.rs", "serves_properties": ["C17", "C19", "C20", "C07"],
     "kind_free_text": "direct calls into the real library code with an independent reference oracle, seeded generators, per-case monitors"},
]

NOTES = ("Runtime monitoring family: every check runs the real rust-teos code (path dependency on /repo, rebuilt on every invocation) "
         "under generated workloads with monitors/oracles written from the property statements. See DESIGN.md.")

META = {
    "C17": {
        "engine": "pure (E6)", "level": "exploration", "design_ref": "DESIGN.md §4 C17",
        "technique": "runtime oracle over generated inputs (round-trip / mutation monitors on the real cryptography functions)",
        "text": "Held on every generated transaction/id/key/message and every mutation tried in this run; sampled inputs, nothing is proved. "
                "Right level because the property is a pure input/output relation of two library functions.",
        "note": "Trusts chacha20poly1305/secp256k1 crates only as far as the oracle's independent re-statement agrees with them; sampled, not exhaustive.",
    },
    "C19": {
        "engine": "pure (E6)", "level": "exploration", "design_ref": "DESIGN.md §4 C19",
        "technique": "reference-model monitor: real TxIndex vs list-of-blocks specification after every operation; small spaces enumerated completely",
        "text": "All connect/disconnect sequences up to the length bound for N=1..3 are executed against the real TxIndex (exhaustive for that bounded space); "
                "production sizes N=6/100 by random walks. Held on what was executed.",
        "note": "Keys unique along a chain; tip-first disconnection order (what lightning-block-sync delivers).",
    },
    "C20": {
        "engine": "pure (E6)", "level": "exploration", "design_ref": "DESIGN.md §4 C20",
        "technique": "runtime oracle over an enumerated configuration grid (real structopt parser + from_file + patch_with_options + verify)",
        "text": "Per-option presence grid, network x port x credential grid enumerated completely; other options random. Held on every configuration executed.",
        "note": "Well-formed TOML and parser-accepted command lines only; E3 (real teosd start/refusal) is added in the thorough tier when available.",
    },
}

_PENDING = "check not built yet in this revision (planned, see DESIGN.md §4); not claimed until its monitor exists"
NOT_APPLICABLE = [{"property_id": f"C{i:02d}", "reason": _PENDING} for i in range(1, 21) if f"C{i:02d}" not in META]
