ENGINES = [
    {"name": "clientdrv (E4)", "path": "harness/src/e4.rs", "serves_properties": ["C05", "C13", "C14"],
     "kind_free_text": "the real watchtower-client binary (built with the verif feature) driven over its plugin stdio protocol against scripted fake towers; real SIGKILLs and "
                       "aborts at hooked commit points; observation through RPC answers, log notifications, stderr, tower request logs, the retry-loop trace and the sqlite file"},
    {"name": "wire (E5)", "path": "harness/src/e5.rs", "serves_properties": ["C15", "C16"],
     "kind_free_text": "the real warp router on loopback TCP in front of the real InternalAPI (C15, raw-socket client with structured mutations) or a recording/scripted gRPC stub "
                       "(C16, the plugin's real request/response code as the client)"},
    {"name": "sched (E2)", "path": "harness/src/{e2,sched}.rs", "serves_properties": ["C10", "C11"],
     "kind_free_text": "E1's tower driven by 2-3 real OS threads; an observer behind the hooked Mutex/Condvar mediates every lock operation: serialising seeded "
                       "PCT scheduler, scripted sequential reference schedules, free-running mode, wait-for / stuck detection, lock-order graph"},
    {"name": "towersim (E1)", "path": "harness/src/{e1,model,world,tower,chain,node,snap}.rs", "serves_properties": ["C01", "C02", "C03", "C04", "C06", "C07", "C08", "C09", "C11", "C12"],
     "kind_free_text": "the real tower components in one process against a simulated chain and node; a sequential reference model (TowerModel) and "
                       "per-property monitors compare replies, sqlite rows, private-API answers and the node RPC log after every step"},
    {"name": "teosd-e2e (E3)", "path": "harness/src/{remote,e3,e3c,e3o,e3cfg,e3s,e3p}.rs (+ Mode::Real in e2.rs)", "serves_properties": ["C01", "C02", "C03", "C04", "C06", "C07", "C08", "C09", "C10", "C11", "C12", "C13", "C16", "C20"],
     "kind_free_text": "the real teosd binary (verif build) started by its own main.rs against a fake bitcoind speaking JSON-RPC over TCP (backed by the same SimChain/SimNode, "
                       "polls held until the driver grants them); user requests over the HTTP API / internal gRPC, operator requests over the mTLS gRPC API, sqlite read by a second "
                       "connection; E1's generator + TowerModel + monitors run unchanged on it (e3); real-process crash enumeration by abort-at-hook-point and SIGKILL-at-bitcoind-request "
                       "(e3c); real-time outages by dropped connections (e3o); what the process does with a configuration file + command line (e3cfg); unscheduled concurrent "
                       "executions of the C10/C11 scenarios (e2 real mode); a soak with structural invariants at quiescent points (e3s); the real client binary against the real tower (e3p); "
                       "a few histories under valgrind memcheck"},
    {"name": "pure (E6)", "path": "harness/src/pure_*.rs", "serves_properties": ["C17", "C18", "C19", "C20", "C07"],
     "kind_free_text": "direct calls into the real library code with an independent reference oracle, seeded generators, per-case monitors"},
]

NOTES = ("Runtime monitoring family: every check runs the real rust-teos code (path dependency on /repo, rebuilt on every invocation) "
         "under generated workloads with monitors/oracles written from the property statements. See DESIGN.md.")

def _e1meta(ref, text):
    return {
        "engine": "towersim (E1) + teosd-e2e (E3)", "level": "exploration", "design_ref": ref,
        "technique": "runtime monitoring: reference-model oracle + offline checker over the recorded RPC/event log, evaluated after every step of seeded hostile histories",
        "text": text + " Held on every history executed in the run (thousands per run, each with tens to hundreds of checked steps); sampled histories, nothing is proved.",
        "note": "Simulated chain/node at the tower's real boundaries; sequential histories; the in-process bootstrap mirrors main.rs, the same histories (fewer) run against the real teosd binary; model written from the statements (DESIGN.md appendix A).",
    }


META = {
    "C01": _e1meta("DESIGN.md §4 C01", "Every breach of an accepted appointment creates an obligation that the RPC-log checker must see discharged inside the block's delivery window (or before the reply)."),
    "C02": _e1meta("DESIGN.md §4 C02", "Every single sendrawtransaction the tower issues is checked for a justification by the model at its log position."),
    "C04": _e1meta("DESIGN.md §4 C04", "Responded appointments are followed through reorgs (depth up to 100), re-submission cadence, confirmation bookkeeping and the exact 100-confirmation completion/refund."),
    "C05": {
        "engine": "clientdrv (E4)", "level": "fault_enumeration", "design_ref": "DESIGN.md §4 C05, appendix C",
        "technique": "runtime monitoring of the real client process under scripted tower faults and real kills: exactly-one-durable-record oracle over the sqlite file after every answered notification / restart",
        "text": "Tower behaviour scripts x kill points are sampled per scenario; the durable-record obligation is checked at every quiescent point and survives restarts. Held on all scenarios run.",
        "note": "Protocol-level fake towers; sampled scripts and kill points.",
    },
    "C13": {
        "engine": "clientdrv (E4)", "level": "fault_enumeration", "design_ref": "DESIGN.md §4 C13, appendix C",
        "technique": "runtime monitoring of the real client process across outage/recovery timings: bounded-progress, flood-rate and retry-loop-overlap monitors over request logs, trace points and RPC answers",
        "text": "Outage kinds x recovery instants relative to the back-off schedule are enumerated from a grid; delivery after recovery is judged against a generous multiple of the configured delays. Held on all scenarios run.",
        "note": "Wall-clock bounds (the product's back-off is defined in seconds); liveness restated as bounded progress.",
    },
    "C14": {
        "engine": "clientdrv (E4)", "level": "exploration", "design_ref": "DESIGN.md §4 C14, appendix C",
        "technique": "runtime monitoring of the real client process under structured mutations of tower replies: liveness probes, stderr panic monitor, persisted-proof and no-further-request checks",
        "text": "Every reply kind / field mutation is followed by liveness probes (process alive, listtowers, next hook answered). Held on every reply sent.",
        "note": "Sampled mutations; notification path (retry path shares the parsing code and is driven by C05/C13).",
    },
    "C06": _e1meta("DESIGN.md §4 C06", "Success iff the signature is by a registered unexpired user over exactly the request's message; failures change nothing; other users' records are byte-identical after every request."),
    "C07": _e1meta("DESIGN.md §4 C07", "Slot ledger conservation after every step with the balance read from reply, memory and disk; plus the slot formula for every length 0..4 MiB (that sub-space exhaustively)."),
    "C08": _e1meta("DESIGN.md §4 C08", "Every receipt is verified with the client-side verifier from exactly the returned fields; stored rows and read-backs are compared byte for byte with the last accepted version."),
    "C09": _e1meta("DESIGN.md §4 C09", "Expiry errors, renewals and purges are checked at exactly the promised heights over small (slots, duration, grace) grids, multi-block polls and reorgs."),
    "C03": {
        "engine": "towersim (E1) + crash enumerator (e1c) + real-process crash enumerator (e3c)", "level": "fault_enumeration", "design_ref": "DESIGN.md §4 C03",
        "technique": "fault injection at hooked crash points (every durable write / commit / node RPC / block download) with restart, monitored by comparing the database after every later operation with the uninterrupted execution",
        "text": "For each sampled history every crash point inside an operation is enumerated (one full re-execution each), plus failed block downloads followed by a restart. "
                "Held on all enumerated faults except two recorded known findings.",
        "note": "Histories are sampled; within a history the crash-point enumeration is complete for points inside operations. e1c: in-process crash = unwind + drop, bootstrap mirrors main.rs; e3c: real teosd processes aborted at their hook points / SIGKILLed at bitcoind requests and restarted by main.rs (sampled points).",
    },
    "C10": {
        "engine": "sched (E2) + teosd-e2e (E3, unscheduled real-binary executions)", "level": "exploration", "design_ref": "DESIGN.md §4 C10, appendix B",
        "technique": "runtime monitoring under a controlled scheduler: linearizability check of recorded outcomes against executed sequential interleavings",
        "text": "Every scheduled execution's observable outcome must be a member of the set of sequential outcomes (obtained by executing the interleavings on identical "
                "towers). Held on the schedules sampled; four reply-level anomalies are recorded as known findings.",
        "note": "PCT sampling at lock granularity, <= 3 threads; the scheduler only sees synchronisation that goes through the hooked Mutex/Condvar.",
    },
    "C11": {
        "engine": "sched (E2) + towersim (E1) + teosd-e2e (E3, incl. valgrind memcheck)", "level": "exploration", "design_ref": "DESIGN.md §4 C11, appendix B",
        "technique": "runtime monitoring: wait-for/stuck-state detector inside the lock observer, lock-order graph, panic hook and liveness probe over scheduled executions and sequential histories",
        "text": "A circular wait is reported only when it manifests (no enabled thread, holders/waiters listed); any panic in tower code is a violation. Held on everything executed.",
        "note": "Sampled schedules and histories; outages of bitcoind are excluded here (C12).",
    },
    "C12": {
        "engine": "towersim (E1) + outage enumerator (e1o) + sched observer + real-binary outages (e3o)", "level": "fault_enumeration", "design_ref": "DESIGN.md §4 C12",
        "technique": "fault injection (node outage at every RPC index, block-source failures) with the tower's calls on scheduler-observed threads; bounded-progress monitor in polls and virtual clock ticks",
        "text": "Every node RPC of each sampled history is an outage start; blocked states are observed through the lock/condvar observer rather than inferred from timeouts. Held on all enumerated faults.",
        "note": "Unbounded liveness is restated as bounded progress; histories are sampled; one outage per run.",
    },
    "C15": {
        "engine": "wire (E5)", "level": "exploration", "design_ref": "DESIGN.md §4 C15",
        "technique": "runtime monitoring of the real HTTP front-end under structured-mutation fuzzing: per-request oracle on status, body, error code and database content",
        "text": "Thousands of generated requests per run against the real router + InternalAPI; every reply is checked against the documented status/code sets and the database must be untouched after every non-200. Held on everything sent.",
        "note": "Sequential requests with well-formed HTTP framing; header games excluded by the property.",
    },
    "C16": {
        "engine": "wire (E5)", "level": "exploration", "design_ref": "DESIGN.md §4 C16",
        "technique": "differential runtime check: generated values sent by the plugin's real client code through the real router to a recording stub and back, compared field by field",
        "text": "Both directions of every message type are exercised through the real code on both sides; signed layouts are checked against an independent parser. Held on all generated messages.",
        "note": "Sampled values biased to boundaries; body-size limits respected.",
    },
    "C17": {
        "engine": "pure (E6)", "level": "exploration", "design_ref": "DESIGN.md §4 C17",
        "technique": "runtime oracle over generated inputs (round-trip / mutation monitors on the real cryptography functions)",
        "text": "Held on every generated transaction/id/key/message and every mutation tried in this run; sampled inputs, nothing is proved. "
                "Right level because the property is a pure input/output relation of two library functions.",
        "note": "Trusts chacha20poly1305/secp256k1 crates only as far as the oracle's independent re-statement agrees with them; sampled, not exhaustive.",
    },
    "C18": {
        "engine": "pure (E6)", "level": "exploration", "design_ref": "DESIGN.md §4 C18",
        "technique": "reference-model monitor over the real WTClient/DBM with a reload (second client on a copy of the directory) after every prefix",
        "text": "Every prefix of every generated sequence is checked three ways (memory, sqlite rows, restarted client) against a dictionary model. Held on everything executed.",
        "note": "Sequences the plugin itself can produce; in-process (no plugin binary).",
    },
    "C19": {
        "engine": "pure (E6)", "level": "exploration", "design_ref": "DESIGN.md §4 C19",
        "technique": "reference-model monitor: real TxIndex vs list-of-blocks specification after every operation; small spaces enumerated completely",
        "text": "All connect/disconnect sequences up to the length bound for N=1..3 are executed against the real TxIndex (exhaustive for that bounded space); "
                "production sizes N=6/100 by random walks. Held on what was executed.",
        "note": "Keys unique along a chain; tip-first disconnection order (what lightning-block-sync delivers).",
    },
    "C20": {
        "engine": "pure (E6) + teosd-e2e (E3, e3cfg)", "level": "exploration", "design_ref": "DESIGN.md §4 C20",
        "technique": "runtime oracle over an enumerated configuration grid (real structopt parser + from_file + patch_with_options + verify), plus observation of what the real teosd process does with a file + command line (listening addresses, bitcoind address and credentials seen by a fake bitcoind, network directory, granted subscription terms, refusals, tower key and forced update across restarts)",
        "text": "Per-option presence grid, network x port x credential grid enumerated completely in-process; other options random; 70 (quick) / 600 (thorough) configurations against the binary, the first 40 sweeping each of 10 options through none / file / command line / both. Held on every configuration executed.",
        "note": "Well-formed TOML and parser-accepted command lines only; the binary-level engine needs the documented default ports free (else inconclusive).",
    },
}

_PENDING = "check not built yet in this revision (planned, see DESIGN.md §4); not claimed until its monitor exists"
NOT_APPLICABLE = [{"property_id": f"C{i:02d}", "reason": _PENDING} for i in range(1, 21) if f"C{i:02d}" not in META]
