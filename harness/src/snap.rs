//! Read-only view of the tower's sqlite file (a second connection), used by the monitors.

use rusqlite::{Connection, OpenFlags};
use std::collections::BTreeMap;
use std::path::Path;

#[derive(Clone, Debug, PartialEq, Eq)]
pub struct UserRow {
    pub available_slots: u32,
    pub start: u32,
    pub expiry: u32,
}

#[derive(Clone, Debug, PartialEq, Eq)]
pub struct ApptRow {
    pub locator: Vec<u8>,
    pub blob: Vec<u8>,
    pub to_self_delay: u32,
    pub user_signature: String,
    pub start_block: u32,
    pub user_id: Vec<u8>,
}

#[derive(Clone, Debug, PartialEq, Eq)]
pub struct TrackerRow {
    pub dispute_tx: Vec<u8>,
    pub penalty_tx: Vec<u8>,
    pub height: u32,
    pub confirmed: bool,
}

#[derive(Clone, Debug, Default, PartialEq, Eq)]
pub struct Snap {
    pub users: BTreeMap<Vec<u8>, UserRow>,
    pub appts: BTreeMap<Vec<u8>, ApptRow>,
    pub trackers: BTreeMap<Vec<u8>, TrackerRow>,
    pub last_known_block: Option<Vec<u8>>,
    pub n_keys: u32,
    pub fk_violations: u32,
}

impl Snap {
    pub fn read(path: &Path) -> Result<Snap, String> {
        let c = Connection::open_with_flags(path, OpenFlags::SQLITE_OPEN_READ_ONLY).map_err(|e| e.to_string())?;
        let mut s = Snap::default();
        {
            let mut st = c.prepare("SELECT user_id, available_slots, subscription_start, subscription_expiry FROM users").map_err(|e| e.to_string())?;
            let mut rows = st.query([]).map_err(|e| e.to_string())?;
            while let Some(r) = rows.next().map_err(|e| e.to_string())? {
                s.users.insert(r.get(0).unwrap(), UserRow { available_slots: r.get(1).unwrap(), start: r.get(2).unwrap(), expiry: r.get(3).unwrap() });
            }
        }
        {
            let mut st = c.prepare("SELECT UUID, locator, encrypted_blob, to_self_delay, user_signature, start_block, user_id FROM appointments").map_err(|e| e.to_string())?;
            let mut rows = st.query([]).map_err(|e| e.to_string())?;
            while let Some(r) = rows.next().map_err(|e| e.to_string())? {
                s.appts.insert(
                    r.get(0).unwrap(),
                    ApptRow { locator: r.get(1).unwrap(), blob: r.get(2).unwrap(), to_self_delay: r.get(3).unwrap(), user_signature: r.get(4).unwrap(), start_block: r.get(5).unwrap(), user_id: r.get(6).unwrap() },
                );
            }
        }
        {
            let mut st = c.prepare("SELECT UUID, dispute_tx, penalty_tx, height, confirmed FROM trackers").map_err(|e| e.to_string())?;
            let mut rows = st.query([]).map_err(|e| e.to_string())?;
            while let Some(r) = rows.next().map_err(|e| e.to_string())? {
                s.trackers.insert(r.get(0).unwrap(), TrackerRow { dispute_tx: r.get(1).unwrap(), penalty_tx: r.get(2).unwrap(), height: r.get(3).unwrap(), confirmed: r.get(4).unwrap() });
            }
        }
        s.last_known_block = c.query_row("SELECT block_hash FROM last_known_block WHERE id=0", [], |r| r.get(0)).ok();
        s.n_keys = c.query_row("SELECT COUNT(*) FROM keys", [], |r| r.get(0)).unwrap_or(0);
        {
            let mut st = c.prepare("PRAGMA foreign_key_check").map_err(|e| e.to_string())?;
            let mut rows = st.query([]).map_err(|e| e.to_string())?;
            while let Some(_r) = rows.next().map_err(|e| e.to_string())? {
                s.fk_violations += 1;
            }
        }
        Ok(s)
    }

    /// Everything a request could have changed (the last known block is chain state, kept apart).
    pub fn content_eq(&self, o: &Snap) -> bool {
        self.users == o.users && self.appts == o.appts && self.trackers == o.trackers && self.n_keys == o.n_keys
    }
}
