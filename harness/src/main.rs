use serde_json::json;
use tv::report::Report;
use tv::*;

fn main() {
    let a = Args::parse();
    let seed = a.u64("seed", 1);
    let shard = a.u64("shard", 0);
    let nshards = a.u64("nshards", 1);
    let out = a.str("out", "/dev/shm/tv-out");
    let thorough = a.str("tier", "quick") == "thorough";
    // replay mode: the witness file names the engine-specific case
    let replay: Option<serde_json::Value> = if a.has("replay") {
        let doc: serde_json::Value = serde_json::from_str(&std::fs::read_to_string(a.str("replay", "")).expect("replay file")).expect("replay json");
        Some(doc.get("replay").cloned().unwrap_or(doc))
    } else {
        None
    };
    let seed = replay.as_ref().and_then(|r| r.get("seed")).and_then(|s| s.as_u64()).unwrap_or(seed);
    let mut rep = Report::new();
    let t0 = std::time::Instant::now();
    match a.engine.as_str() {
        "c17" => {
            let cases = a.u64("cases", if thorough { 40_000 } else { 1_500 });
            pure_c17::run(seed, shard, cases, &mut rep);
        }
        "c18" => pure_c18::run(seed, shard, a.u64("sequences", if thorough { 1500 } else { 60 }), &mut rep),
        "c19" => {
            let (max_n, max_len, rnd) = if thorough { (3, 9, 20_000) } else { (3, 6, 4_000) };
            pure_c19::run(seed, shard, nshards, a.u64("max_n", max_n) as usize, a.u64("max_len", max_len) as usize, a.u64("random_ops", rnd), &mut rep);
        }
        "c20" => {
            pure_c20::run(seed, shard, nshards, a.u64("cases", if thorough { 60_000 } else { 6_000 }), &mut rep);
        }
        "e1" => {
            let bias = replay.as_ref().and_then(|r| r.get("bias")).and_then(|b| b.as_str()).map(|b| b.to_string()).unwrap_or_else(|| a.str("bias", "mixed"));
            let only = replay.as_ref().and_then(|r| r.get("case")).and_then(|c| c.as_u64()).or(if a.has("case") { Some(a.u64("case", 0)) } else { None });
            e1::run(seed, shard, nshards, a.u64("cases", if thorough { 600 } else { 60 }), &bias, only, &mut rep);
        }
        "e3" => {
            let bias = replay.as_ref().and_then(|r| r.get("bias")).and_then(|b| b.as_str()).map(|b| b.to_string()).unwrap_or_else(|| a.str("bias", "mixed"));
            let only = replay.as_ref().and_then(|r| r.get("case")).and_then(|c| c.as_u64()).or(if a.has("case") { Some(a.u64("case", 0)) } else { None });
            let props: Vec<String> = a.str("props", "C01").split(',').map(|s| s.to_string()).collect();
            e3::run(seed, shard, nshards, a.u64("cases", if thorough { 40 } else { 2 }), &bias, a.u64("parallel", 4) as usize, only, &props, a.u64("memcheck", 0) == 1, &mut rep);
        }
        "e3c" => {
            let only = replay.as_ref().map(|r| {
                let f = &r["fault"];
                let fault = if let Some(a) = f.get("abort") {
                    e3c::Fault::Abort { process: a[0].as_u64().unwrap() as usize, k: a[1].as_u64().unwrap() as usize }
                } else {
                    let a = &f["kill_at_request"];
                    e3c::Fault::KillAtRequest { process: a[0].as_u64().unwrap() as usize, j: a[1].as_u64().unwrap() }
                };
                (r["case"].as_u64().unwrap(), fault)
            });
            let md = replay.as_ref().and_then(|r| r.get("mine_down")).and_then(|b| b.as_bool()).unwrap_or(false);
            e3c::run(seed, shard, nshards, a.u64("cases", if thorough { 12 } else { 1 }), a.u64("max_faults", if thorough { 400 } else { 60 }) as usize, a.u64("parallel", 4) as usize, only, md, &mut rep);
        }
        "e3o" => {
            let only = replay.as_ref().map(|r| {
                let o = &r["fault"]["outage"];
                (r["case"].as_u64().unwrap(), e3o::Fault { rpc: o[0].as_u64().unwrap(), polls_down: o[1].as_u64().unwrap() as u32, cut_reply: o.get(2).and_then(|b| b.as_bool()).unwrap_or(false) })
            });
            e3o::run(seed, shard, nshards, a.u64("cases", if thorough { 12 } else { 1 }), a.u64("max_faults", if thorough { 60 } else { 12 }) as usize, a.u64("parallel", 4) as usize, only, &mut rep);
        }
        "e3cfg" => {
            let only = replay.as_ref().and_then(|r| r.get("case")).and_then(|c| c.as_u64());
            if shard == 0 {
                e3cfg::run(seed, shard, a.u64("cases", if thorough { 400 } else { 60 }), only, &mut rep);
            }
        }
        "e3s" => {
            let only = replay.as_ref().and_then(|r| r.get("case")).and_then(|c| c.as_u64());
            e3s::run(seed, shard, nshards, a.u64("cases", if thorough { 20 } else { 2 }), a.u64("rounds", 6) as usize, a.u64("threads", 6) as usize, only, &mut rep);
        }
        "e3p" => {
            let only = replay.as_ref().and_then(|r| r.get("case")).and_then(|c| c.as_u64());
            e3p::run(seed, shard, nshards, a.u64("cases", if thorough { 12 } else { 1 }), only, &mut rep);
        }
        "e1c" => {
            let only = replay.as_ref().map(|r| {
                let f = &r["fault"];
                let fault = if let Some(k) = f.get("crash_at") {
                    e1c::Fault::CrashAt(k.as_u64().unwrap() as usize)
                } else if let Some(k) = f.get("crash_at_mine_down") {
                    e1c::Fault::CrashAtMineDown(k.as_u64().unwrap() as usize)
                } else {
                    let d = &f["download_failure"];
                    e1c::Fault::DownloadFailure { op: d[0].as_u64().unwrap() as usize, block: d[1].as_u64().unwrap() as usize, persistent: d[2].as_bool().unwrap() }
                };
                (r["case"].as_u64().unwrap(), fault)
            });
            e1c::run(seed, shard, nshards, a.u64("cases", if thorough { 60 } else { 3 }), a.u64("max_points", if thorough { 2000 } else { 400 }) as usize, only, &mut rep);
        }
        "e1o" => {
            let only = replay.as_ref().map(|r| {
                let f = &r["fault"];
                let fault = if let Some(o) = f.get("outage") {
                    e1o::Fault::Outage { rpc: o[0].as_u64().unwrap(), polls_down: o[1].as_u64().unwrap() as u32, with_following_chain_ops: o[2].as_bool().unwrap() }
                } else if let Some(d) = f.get("reorg_stall") {
                    e1o::Fault::ReorgStall { op: d[0].as_u64().unwrap() as usize, depth: d[1].as_u64().unwrap() as usize }
                } else if let Some(d) = f.get("idle_outage") {
                    e1o::Fault::IdleOutage { op: d[0].as_u64().unwrap() as usize, back_on: d[1].as_u64().unwrap() as u8 }
                } else {
                    let d = &f["src_failure"];
                    e1o::Fault::SrcFailure { op: d[0].as_u64().unwrap() as usize, call: d[1].as_u64().unwrap(), len: d[2].as_u64().unwrap() }
                };
                (r["case"].as_u64().unwrap(), fault)
            });
            let prop = a.str("props", "C12");
            e1o::run(seed, shard, nshards, a.u64("cases", if thorough { 40 } else { 3 }), a.u64("max_faults", if thorough { 400 } else { 60 }) as usize, only, &prop, &mut rep);
        }
        "e5c15" => e5::run_c15(seed, shard, a.u64("requests", if thorough { 6000 } else { 400 }), &mut rep),
        "e5c16" => e5::run_c16(seed, shard, a.u64("messages", if thorough { 6000 } else { 400 }), &mut rep),
        "e4" => {
            let family = replay.as_ref().and_then(|r| r.get("family")).and_then(|f| f.as_str()).map(|f| f.to_string()).unwrap_or_else(|| a.str("family", "c05"));
            let only = replay.as_ref().and_then(|r| r.get("scenario")).and_then(|c| c.as_u64());
            e4::run(&family, seed, shard, nshards, a.u64("scenarios", if thorough { 100 } else { 8 }), a.u64("parallel", 8) as usize, only, &mut rep);
        }
        "e2" => {
            let only = replay.as_ref().map(|r| {
                let name = r["scenario"].as_str().unwrap_or("").to_string();
                let m = &r["mode"];
                let mode = if let Some(p) = m.get("pct") {
                    e2::Mode::Pct { seed: p[0].as_u64().unwrap(), preemptions: p[1].as_u64().unwrap() as usize, horizon: p[2].as_u64().unwrap_or(60) as usize }
                } else if let Some(f) = m.get("free") {
                    e2::Mode::Free { seed: f.as_u64().unwrap() }
                } else if let Some(f) = m.get("real") {
                    e2::Mode::Real { seed: f.as_u64().unwrap() }
                } else {
                    e2::Mode::Script(m["script"].as_array().map(|a| a.iter().map(|x| x.as_str().unwrap().to_string()).collect()).unwrap_or_default())
                };
                (name, mode)
            });
            let shard = replay.as_ref().and_then(|r| r.get("shard")).and_then(|s| s.as_u64()).unwrap_or(shard);
            e2::run(seed, shard, nshards, a.u64("schedules", if thorough { 4000 } else { 250 }), a.u64("free", if thorough { 200 } else { 20 }), a.u64("real", 0), only, &mut rep);
        }
        "c07f" => {
            pure_c07f::run(&mut rep);
        }
        other => {
            eprintln!("unknown engine {other}");
            std::process::exit(2);
        }
    }
    rep.write(&out, &format!("{}-{shard}", a.str("tag", &a.engine)), json!({"wall_s": t0.elapsed().as_secs_f64(), "seed": seed}));
}
