//! C20 against the real binary: what `teosd` *does* with a configuration file and a command line.
//!
//! The in-process grid (`pure_c20`) decides what `Config` ends up holding; this engine decides what the
//! process does with it, i.e. `main.rs`' plumbing: where it listens, where and as whom it talks to
//! bitcoind, which network directory it uses, which subscription terms it grants, whether it refuses
//! to start, and whether the tower key survives a restart.
//!
//! Every observable setting gets three distinguishable values — the documented default, a file value, a
//! command-line value — chosen so that the process' behaviour tells which one it followed:
//!   api_bind / rpc_bind / btc_rpc_connect   127.0.0.1 (or localhost) | 127.0.0.2 | 127.0.0.3
//!   api_port / rpc_port / btc_rpc_port      documented default | two free ports
//!   btc_network                             mainnet (default) | one of the four | another / unknown name
//!   credentials                             all 8 presence combinations, values differ per source
//!   subscription_slots / _duration          file only (seen in the registration receipt)
//!   overwrite_key                           file true / command line flag (tower id across a restart)
//! The fake bitcoind listens on every candidate (address, port) pair and records where requests arrive
//! and with which Authorization header.

use crate::chain::{lock, SimChain};
use crate::e5::raw_request;
use crate::remote::{teosd_bin, FakeBitcoind};
use crate::report::Report;
use crate::rng::{fnv, Rng};
use crate::world::World;
use serde_json::{json, Value};
use std::net::{SocketAddr, TcpListener, TcpStream};
use std::path::{Path, PathBuf};
use std::sync::Arc;
use std::time::{Duration, Instant};

#[derive(Clone, Debug, Default)]
struct Placed {
    file: Option<String>,
    cli: Option<String>,
}

impl Placed {
    fn effective(&self, default: &str) -> String {
        self.cli.clone().or(self.file.clone()).unwrap_or_else(|| default.to_string())
    }
}

#[derive(Clone, Debug, Default)]
struct CaseCfg {
    api_bind: Placed,
    api_port: Placed,
    rpc_bind: Placed,
    rpc_port: Placed,
    network: Placed,
    user: Placed,
    password: Placed,
    cookie: Placed,
    connect: Placed,
    btc_port: Placed,
    slots: Option<String>,
    duration: Option<String>,
    overwrite_file: bool,
    overwrite_cli: bool,
}

fn free_port_pair() -> (u16, u16) {
    let a = TcpListener::bind("127.0.0.1:0").unwrap();
    let b = TcpListener::bind("127.0.0.1:0").unwrap();
    (a.local_addr().unwrap().port(), b.local_addr().unwrap().port())
}

fn placement(rng: &mut Rng, forced: Option<u8>, file_v: &str, cli_v: &str) -> Placed {
    let k = forced.unwrap_or_else(|| rng.below(4) as u8);
    Placed { file: if k & 1 != 0 { Some(file_v.to_string()) } else { None }, cli: if k & 2 != 0 { Some(cli_v.to_string()) } else { None } }
}

fn net_norm(n: &str) -> Option<(&'static str, u16)> {
    match n {
        "mainnet" | "main" => Some(("main", 8332)),
        "testnet" | "test" => Some(("test", 18332)),
        "regtest" => Some(("regtest", 18443)),
        "signet" => Some(("signet", 38332)),
        _ => None,
    }
}

const KNOWN: &[&str] = &["mainnet", "testnet", "signet", "regtest"];
const UNKNOWN: &[&str] = &["bitcoin", "Mainnet", "regtest2", "simnet", "testnet4", ""];

struct Expect {
    refused: Option<&'static str>,
    api: (String, u16),
    rpc: (String, u16),
    btc: (String, u16),
    net_dir: String,
    auth: String,
    slots: u32,
    duration: u32,
}

fn b64(s: &str) -> String {
    const T: &[u8] = b"ABCDEFGHIJKLMNOPQRSTUVWXYZabcdefghijklmnopqrstuvwxyz0123456789+/";
    let b = s.as_bytes();
    let mut out = String::new();
    for c in b.chunks(3) {
        let n = (c[0] as u32) << 16 | (*c.get(1).unwrap_or(&0) as u32) << 8 | *c.get(2).unwrap_or(&0) as u32;
        out.push(T[(n >> 18) as usize & 63] as char);
        out.push(T[(n >> 12) as usize & 63] as char);
        out.push(if c.len() > 1 { T[(n >> 6) as usize & 63] as char } else { '=' });
        out.push(if c.len() > 2 { T[n as usize & 63] as char } else { '=' });
    }
    out
}

/// The documented rule, restated: command line over file over default; exactly one authentication
/// method; known network; the network picks the RPC port unless one was set.
fn expect(c: &CaseCfg, cookie_contents: &dyn Fn(&str) -> String) -> Expect {
    let user = c.user.effective("");
    let password = c.password.effective("");
    let cookie = c.cookie.effective("");
    let net = c.network.effective("mainnet");
    let mut refused = None;
    let auth = match (user.is_empty(), password.is_empty(), cookie.is_empty()) {
        (false, false, true) => format!("Basic {}", b64(&format!("{user}:{password}"))),
        (true, true, false) => format!("Basic {}", b64(&cookie_contents(&cookie))),
        (true, true, true) => {
            refused = Some("No valid bitcoind auth provided");
            String::new()
        }
        _ => {
            refused = Some("Multiple bitcoind auth provided");
            String::new()
        }
    };
    let nn = net_norm(&net);
    if refused.is_none() && nn.is_none() {
        refused = Some("btc_network not recognized");
    }
    let (net_dir, default_port) = nn.unwrap_or(("", 0));
    let btc_port: u16 = match c.btc_port.effective("0").parse::<u16>().unwrap_or(0) {
        0 => default_port,
        p => p,
    };
    Expect {
        refused,
        api: (c.api_bind.effective("127.0.0.1"), c.api_port.effective("9814").parse().unwrap()),
        rpc: (c.rpc_bind.effective("127.0.0.1"), c.rpc_port.effective("8814").parse().unwrap()),
        btc: (c.connect.effective("localhost"), btc_port),
        net_dir: net_dir.to_string(),
        auth,
        slots: c.slots.clone().unwrap_or_else(|| "10000".into()).parse().unwrap(),
        duration: c.duration.clone().unwrap_or_else(|| "4320".into()).parse().unwrap(),
    }
}

fn toml_str(k: &str, v: &str, numeric: bool) -> String {
    if numeric {
        format!("{k} = {v}\n")
    } else {
        format!("{k} = {}\n", serde_json::to_string(v).unwrap())
    }
}

struct RunObs {
    exited: Option<i32>,
    output: String,
    api_answers: Vec<(String, u16)>,
    rpc_listens: Vec<(String, u16)>,
    hits: Vec<(String, u64, Vec<String>)>,
    register: Option<(u32, u32)>,
    tower_key: Option<Vec<u8>>,
    net_dirs: Vec<String>,
}

fn tcp_open(addr: &str, port: u16) -> bool {
    format!("{addr}:{port}").parse::<SocketAddr>().ok().map_or(false, |a| TcpStream::connect_timeout(&a, Duration::from_millis(300)).is_ok())
}

fn ping(addr: &str, port: u16) -> bool {
    match format!("{addr}:{port}").parse::<SocketAddr>() {
        Ok(a) => raw_request(a, "GET", "/ping", None, b"", Duration::from_millis(800)).map_or(false, |r| r.status == 200),
        Err(_) => false,
    }
}

#[allow(clippy::too_many_arguments)]
fn run_teosd(datadir: &Path, c: &CaseCfg, internal_port: u16, overwrite: (bool, bool), force: (bool, bool), btc: &FakeBitcoind, api_cands: &[(String, u16)], rpc_cands: &[(String, u16)], user_id_hex: &str, expect_accept: bool) -> RunObs {
    std::fs::create_dir_all(datadir).unwrap();
    let mut toml = String::new();
    let mut args: Vec<String> = vec!["--datadir".into(), datadir.to_string_lossy().to_string()];
    let mut put = |name: &str, p: &Placed, numeric: bool, flag: &str| {
        if let Some(v) = &p.file {
            toml.push_str(&toml_str(name, v, numeric));
        }
        if let Some(v) = &p.cli {
            args.push(format!("--{flag}={v}"));
        }
    };
    put("api_bind", &c.api_bind, false, "apibind");
    put("api_port", &c.api_port, true, "apiport");
    put("rpc_bind", &c.rpc_bind, false, "rpcbind");
    put("rpc_port", &c.rpc_port, true, "rpcport");
    put("btc_network", &c.network, false, "btcnetwork");
    put("btc_rpc_user", &c.user, false, "btcrpcuser");
    put("btc_rpc_password", &c.password, false, "btcrpcpassword");
    put("btc_rpc_cookie", &c.cookie, false, "btcrpccookie");
    put("btc_rpc_connect", &c.connect, false, "btcrpcconnect");
    put("btc_rpc_port", &c.btc_port, true, "btcrpcport");
    if let Some(s) = &c.slots {
        toml.push_str(&toml_str("subscription_slots", s, true));
    }
    if let Some(d) = &c.duration {
        toml.push_str(&toml_str("subscription_duration", d, true));
    }
    toml.push_str(&format!("internal_api_port = {internal_port}\npolling_delta = 1\n"));
    if overwrite.0 {
        toml.push_str("overwrite_key = true\n");
    }
    if overwrite.1 {
        args.push("--overwritekey".into());
    }
    if force.0 {
        toml.push_str("force_update = true\n");
    }
    if force.1 {
        args.push("--forceupdate".into());
    }
    std::fs::write(datadir.join("teos.toml"), &toml).unwrap();
    let out_path = datadir.join("teosd.out");
    let out = std::fs::OpenOptions::new().create(true).append(true).open(&out_path).unwrap();
    let err = out.try_clone().unwrap();
    lock(&btc.st.0).hits.clear();
    btc.new_session();
    btc.release_polls();
    let mut child = match std::process::Command::new(teosd_bin()).args(&args).env("RUST_BACKTRACE", "0").env_remove("TEOS_VERIF_ABORT_AT").env_remove("TEOS_VERIF_TRACE").stdin(std::process::Stdio::null()).stdout(out).stderr(err).spawn() {
        Ok(c) => c,
        Err(e) => {
            return RunObs { exited: Some(-99), output: format!("spawn failed: {e}"), api_answers: vec![], rpc_listens: vec![], hits: vec![], register: None, tower_key: None, net_dirs: vec![] };
        }
    };
    let t0 = Instant::now();
    let mut exited = None;
    let mut api_answers = Vec::new();
    loop {
        if let Ok(Some(st)) = child.try_wait() {
            exited = Some(st.code().unwrap_or(-1));
            break;
        }
        api_answers = api_cands.iter().filter(|(a, p)| ping(a, *p)).cloned().collect();
        if !api_answers.is_empty() {
            break;
        }
        // a refusal is immediate; an accepted configuration is given time to bootstrap
        if t0.elapsed() > Duration::from_secs(if expect_accept { 60 } else { 25 }) {
            break;
        }
        std::thread::sleep(Duration::from_millis(40));
    }
    let mut rpc_listens = Vec::new();
    let mut register = None;
    if exited.is_none() && !api_answers.is_empty() {
        // let the private API come up too (it is started right before the HTTP one)
        std::thread::sleep(Duration::from_millis(150));
        rpc_listens = rpc_cands.iter().filter(|(a, p)| tcp_open(a, *p)).cloned().collect();
        let (a, p) = &api_answers[0];
        if let Ok(addr) = format!("{a}:{p}").parse::<SocketAddr>() {
            let body = format!("{{\"user_id\":\"{user_id_hex}\"}}");
            if let Ok(r) = raw_request(addr, "POST", "/register", Some("application/json"), body.as_bytes(), Duration::from_secs(10)) {
                if let Ok(v) = serde_json::from_slice::<Value>(&r.body) {
                    if let (Some(s), Some(st), Some(ex)) = (v["available_slots"].as_u64(), v["subscription_start"].as_u64(), v["subscription_expiry"].as_u64()) {
                        register = Some((s as u32, (ex - st) as u32));
                    }
                }
            }
        }
    }
    let _ = child.kill();
    let _ = child.wait();
    let hits: Vec<(String, u64, Vec<String>)> = lock(&btc.st.0).hits.iter().map(|(k, v)| (k.clone(), v.0, v.1.iter().cloned().collect())).collect();
    let mut net_dirs = Vec::new();
    for n in ["main", "test", "regtest", "signet", "mainnet", "testnet"] {
        if datadir.join(n).join("teos_db.sql3").exists() {
            net_dirs.push(n.to_string());
        }
    }
    let tower_key = net_dirs.first().and_then(|n| {
        let c = rusqlite::Connection::open_with_flags(datadir.join(n).join("teos_db.sql3"), rusqlite::OpenFlags::SQLITE_OPEN_READ_ONLY).ok()?;
        c.query_row("SELECT key FROM keys ORDER BY id DESC LIMIT 1", [], |r| r.get::<_, String>(0)).ok().map(|s| s.into_bytes())
    });
    RunObs { exited, output: std::fs::read_to_string(&out_path).unwrap_or_default(), api_answers, rpc_listens, hits, register, tower_key, net_dirs }
}

pub fn run(seed: u64, shard: u64, cases: u64, only: Option<u64>, rep: &mut Report) {
    let dir = PathBuf::from(format!("/dev/shm/tv-e3cfg-{}", std::process::id()));
    std::fs::create_dir_all(&dir).unwrap();
    let r = rep.p("C20");
    // the documented default ports must be free: this engine is the only thing that may use them
    let defaults: [u16; 7] = [9814, 8814, 8332, 18332, 18443, 38332, 50051];
    for p in defaults {
        // (38332 and 50051 lie in the ephemeral range: an outgoing connection of any process may be using the number for a
        // moment, so the port is given half a minute to become free before the engine gives up)
        let mut free = false;
        for _ in 0..30 {
            if TcpListener::bind(("127.0.0.1", p)).is_ok() {
                free = true;
                break;
            }
            std::thread::sleep(std::time::Duration::from_secs(1));
        }
        if !free {
            r.eval();
            r.inconclusive += 1;
            r.note(format!("e3cfg: the documented default port {p} is in use on this machine; the binary-level configuration check did not run"));
            return;
        }
    }
    let mut rng0 = Rng::stream(seed, shard, 0xCF6);
    let world = World::new(&mut rng0, 1, 1, 105);
    let chain: Arc<SimChain> = Arc::new(world.simchain());
    let btc = FakeBitcoind::start(chain, world.node.clone());
    let user_id_hex = hex::encode(world.users[0].1.serialize());
    let ids: Vec<u64> = match only {
        Some(c) => vec![c],
        None => (0..cases).collect(),
    };
    // candidate addresses of bitcoind: localhost (v4 and, where available, v6), the file's, the command line's
    let (bf, bc) = free_port_pair();
    let btc_addrs = ["127.0.0.1", "127.0.0.2", "127.0.0.3"];
    let mut btc_ports = vec![8332u16, 18332, 18443, 38332, bf, bc];
    btc_ports.dedup();
    let mut v6 = false;
    for p in &btc_ports {
        for a in btc_addrs {
            if let Err(e) = btc.add_listener(format!("{a}:{p}").parse().unwrap()) {
                r.eval();
                r.inconclusive += 1;
                r.note(format!("e3cfg: cannot listen on {a}:{p}: {e}"));
                btc.shutdown();
                return;
            }
        }
        if btc.add_listener(format!("[::1]:{p}").parse().unwrap()).is_ok() {
            v6 = true;
        }
    }
    let _ = v6;
    // systematic part: every option x every placement (none / file / command line / both) with the rest random
    let n_opts = 10u64;
    for id in ids {
        let mut rng = Rng::stream(seed, id, 0xC20);
        // five distinct ports (held open together while choosing, so that none is handed out twice)
        let (af, ac, rf, rc, internal) = {
            let ls: Vec<TcpListener> = (0..5).map(|_| TcpListener::bind("127.0.0.1:0").unwrap()).collect();
            let p: Vec<u16> = ls.iter().map(|l| l.local_addr().unwrap().port()).collect();
            (p[0], p[1], p[2], p[3], p[4])
        };
        let forced = |opt: u64| -> Option<u8> { if id < n_opts * 4 && id / 4 == opt { Some((id % 4) as u8) } else { None } };
        let datadir = dir.join(format!("cfg-{id}"));
        let _ = std::fs::remove_dir_all(&datadir);
        std::fs::create_dir_all(&datadir).unwrap();
        let cookie_f = datadir.join("cookie-file");
        let cookie_c = datadir.join("cookie-cli");
        std::fs::write(&cookie_f, "__cookie__:fromfile").unwrap();
        std::fs::write(&cookie_c, "__cookie__:fromcli").unwrap();
        let mut c = CaseCfg::default();
        c.api_bind = placement(&mut rng, forced(0), "127.0.0.2", "127.0.0.3");
        c.api_port = placement(&mut rng, forced(1), &af.to_string(), &ac.to_string());
        c.rpc_bind = placement(&mut rng, forced(2), "127.0.0.2", "127.0.0.3");
        c.rpc_port = placement(&mut rng, forced(3), &rf.to_string(), &rc.to_string());
        // network: mostly known names (so that the rest of the case is observable), sometimes an unknown one
        let nf = if rng.chance(1, 7) { rng.pick(UNKNOWN).to_string() } else { rng.pick(KNOWN).to_string() };
        let nc = loop {
            let x = if rng.chance(1, 7) { rng.pick(UNKNOWN).to_string() } else { rng.pick(KNOWN).to_string() };
            if x != nf {
                break x;
            }
        };
        c.network = placement(&mut rng, forced(4), &nf, &nc);
        c.connect = placement(&mut rng, forced(5), "127.0.0.2", "127.0.0.3");
        c.btc_port = placement(&mut rng, forced(6), &bf.to_string(), &bc.to_string());
        // credentials: one third of the cases explore all presence combinations (mostly refusals), the rest
        // carry exactly one method so that the other settings can be observed
        let explore = forced(7).is_some() || forced(8).is_some() || forced(9).is_some() || rng.chance(1, 3);
        if explore {
            c.user = placement(&mut rng, forced(7), "userfile", "usercli");
            c.password = placement(&mut rng, forced(8), "passfile", "passcli");
            c.cookie = placement(&mut rng, forced(9), &cookie_f.to_string_lossy(), &cookie_c.to_string_lossy());
        } else if rng.chance(1, 2) {
            let k = 1 + rng.below(3) as u8;
            c.user = placement(&mut rng, Some(k), "userfile", "usercli");
            let k = 1 + rng.below(3) as u8;
            c.password = placement(&mut rng, Some(k), "passfile", "passcli");
        } else {
            let k = 1 + rng.below(3) as u8;
            c.cookie = placement(&mut rng, Some(k), &cookie_f.to_string_lossy(), &cookie_c.to_string_lossy());
        }
        if rng.chance(1, 2) {
            c.slots = Some((1 + rng.below(5000)).to_string());
        }
        if rng.chance(1, 2) {
            c.duration = Some((1 + rng.below(5000)).to_string());
        }
        let overwrite_probe = id % 3 == 0;
        let ow = (rng.chance(1, 2), rng.chance(1, 2));
        let cookie_contents = |p: &str| std::fs::read_to_string(p).unwrap_or_default();
        let ex = expect(&c, &cookie_contents);
        lock(&btc.st.0).chain_name = if ex.net_dir.is_empty() { "regtest".into() } else { ex.net_dir.clone() };
        let api_cands: Vec<(String, u16)> = ["127.0.0.1", "127.0.0.2", "127.0.0.3"].iter().flat_map(|a| [9814u16, af, ac].into_iter().map(move |p| (a.to_string(), p))).collect();
        let rpc_cands: Vec<(String, u16)> = ["127.0.0.1", "127.0.0.2", "127.0.0.3"].iter().flat_map(|a| [8814u16, rf, rc].into_iter().map(move |p| (a.to_string(), p))).collect();
        let r = rep.p("C20");
        r.eval();
        let describe = format!("file {{{}}} command line {{{}}}", describe_side(&c, true), describe_side(&c, false));
        let replay = json!({"engine":"e3cfg","seed":seed,"case":id});
        let obs = run_teosd(&datadir, &c, internal, (false, false), (false, false), &btc, &api_cands, &rpc_cands, &user_id_hex, ex.refused.is_none());
        r.nontrivial(fnv(describe.as_bytes()));
        let total_hits: u64 = obs.hits.iter().map(|h| h.1).sum();
        if let Some(why) = ex.refused {
            r.count("e3cfg_refusals_expected", 1);
            if obs.exited != Some(1) || !obs.output.contains(why) {
                r.violation(format!("C20:binary:not-refused:{}", why.split_whitespace().take(2).collect::<Vec<_>>().join("-")), format!("case {id} ({describe}): teosd should refuse to start ({why}); exit status {:?}, output tail {:?}", obs.exited, tail(&obs.output)), replay.clone());
            } else if total_hits > 0 {
                r.violation("C20:binary:contacted-bitcoind-before-refusing", format!("case {id} ({describe}): refused, but bitcoind had received {total_hits} requests"), replay.clone());
            }
        } else {
            r.count("e3cfg_starts_expected", 1);
            if obs.exited.is_some() || obs.api_answers.is_empty() {
                if obs.output.contains("Address already in use") {
                    r.inconclusive += 1;
                    r.note(format!("e3cfg case {id}: a port was taken by another process"));
                } else {
                    r.violation("C20:binary:valid-configuration-did-not-start", format!("case {id} ({describe}): expected teosd to start (HTTP API on {:?}); exit status {:?}, output tail {:?}", ex.api, obs.exited, tail(&obs.output)), replay.clone());
                }
            } else {
                let mut bad: Vec<(&str, String)> = Vec::new();
                if obs.api_answers != vec![ex.api.clone()] {
                    bad.push(("api-address", format!("HTTP API answers on {:?}, expected exactly {:?}", obs.api_answers, ex.api)));
                }
                if obs.rpc_listens != vec![ex.rpc.clone()] {
                    bad.push(("rpc-address", format!("private API listens on {:?}, expected exactly {:?}", obs.rpc_listens, ex.rpc)));
                }
                let want_hosts: Vec<String> = if ex.btc.0 == "localhost" { vec![format!("127.0.0.1:{}", ex.btc.1), format!("[::1]:{}", ex.btc.1)] } else { vec![format!("{}:{}", ex.btc.0, ex.btc.1)] };
                let wrong_hits: Vec<&(String, u64, Vec<String>)> = obs.hits.iter().filter(|h| !want_hosts.contains(&h.0)).collect();
                if total_hits == 0 || !wrong_hits.is_empty() {
                    bad.push(("bitcoind-address", format!("bitcoind requests arrived at {:?}, expected only at {:?}", obs.hits.iter().map(|h| (&h.0, h.1)).collect::<Vec<_>>(), want_hosts)));
                }
                let auths: std::collections::BTreeSet<&String> = obs.hits.iter().flat_map(|h| h.2.iter()).collect();
                if auths.iter().any(|a| **a != ex.auth) {
                    bad.push(("bitcoind-credentials", format!("Authorization headers seen {:?}, expected {:?}", auths, ex.auth)));
                }
                if obs.net_dirs != vec![ex.net_dir.clone()] {
                    bad.push(("network-directory", format!("database found under {:?}, expected under {:?}", obs.net_dirs, ex.net_dir)));
                }
                match obs.register {
                    Some((s, d)) if s == ex.slots && d == ex.duration => {}
                    other => bad.push(("subscription-terms", format!("registration granted (slots, duration) {:?}, expected ({}, {})", other, ex.slots, ex.duration))),
                }
                for (what, detail) in bad {
                    r.violation(format!("C20:binary:{what}"), format!("case {id} ({describe}): {detail}"), replay.clone());
                }
                r.count("e3cfg_started_and_observed", 1);
                r.count("e3cfg_bitcoind_requests_observed", total_hits);
                // the destructive switch: only the command line may replace the tower key
                if overwrite_probe {
                    let k1 = obs.tower_key.clone();
                    let obs2 = run_teosd(&datadir, &c, internal, ow, (false, false), &btc, &api_cands, &rpc_cands, &user_id_hex, true);
                    let k2 = obs2.tower_key.clone();
                    r.count(&format!("e3cfg_overwrite_key[file={},cli={}]", ow.0, ow.1), 1);
                    match (k1, k2) {
                        (Some(a), Some(b)) => {
                            let changed = a != b;
                            if changed != ow.1 {
                                r.violation(if changed { "C20:binary:tower-key-overwritten-without-command-line-switch" } else { "C20:binary:tower-key-not-overwritten" }, format!("case {id} ({describe}): restart with overwrite_key in file = {}, --overwritekey = {}: tower key changed = {changed}", ow.0, ow.1), replay.clone());
                            }
                        }
                        _ => {
                            if obs2.exited.is_some() {
                                r.violation("C20:binary:valid-configuration-did-not-start", format!("case {id} ({describe}): the restart (overwrite probe) did not start; output tail {:?}", tail(&obs2.output)), replay.clone());
                            } else {
                                r.inconclusive += 1;
                                r.note(format!("e3cfg case {id}: tower key unreadable in the overwrite probe"));
                            }
                        }
                    }
                }
            }
        }
        // the other destructive switch: a pruned bitcoind that no longer has the blocks below the tower's last
        // known block makes teosd refuse to start unless --forceupdate is given on the command line
        if ex.refused.is_none() && id % 4 == 1 && obs.exited.is_none() && !obs.api_answers.is_empty() {
            let fu = (rng.chance(1, 2), rng.chance(1, 2));
            let h = lock(&world.chain).height() as u64;
            lock(&btc.st.0).prune_height = Some(h + 20);
            world.mine(&(0..140).map(|_| vec![]).collect::<Vec<_>>(), id);
            let obs3 = run_teosd(&datadir, &c, internal, (false, false), fu, &btc, &api_cands, &rpc_cands, &user_id_hex, fu.1);
            lock(&btc.st.0).prune_height = None;
            // back to a short chain: on the non-regtest networks the block source validates difficulty transitions at
            // every 2016th height, which a chain of constant-difficulty test blocks must not reach
            {
                let mut cs = lock(&world.chain);
                *cs = crate::chain::ChainState::new();
                for _ in 0..105 {
                    cs.mine(vec![]);
                }
            }
            r.count(&format!("e3cfg_force_update[file={},cli={}]", fu.0, fu.1), 1);
            let started = obs3.exited.is_none() && !obs3.api_answers.is_empty();
            if started != fu.1 {
                if obs3.output.contains("Address already in use") {
                    r.inconclusive += 1;
                } else {
                    r.violation(if started { "C20:binary:forced-update-without-command-line-switch" } else { "C20:binary:force-update-switch-ignored" }, format!("case {id} ({describe}): bitcoind pruned above the tower's last known block; force_update in file = {}, --forceupdate = {}: teosd started = {started} (exit {:?}, output tail {:?})", fu.0, fu.1, obs3.exited, tail(&obs3.output)), replay.clone());
                }
            }
        }
        r.sample(|| json!({"engine":"e3cfg","case": id, "config": describe, "refusal_expected": ex.refused, "exit": obs.exited, "api": obs.api_answers, "bitcoind_hits": obs.hits.iter().map(|h| (&h.0, h.1)).collect::<Vec<_>>()}));
        let _ = std::fs::remove_dir_all(&datadir);
    }
    btc.shutdown();
    std::fs::remove_dir_all(&dir).ok();
}

fn tail(out: &str) -> String {
    out.lines().rev().take(3).collect::<Vec<_>>().into_iter().rev().collect::<Vec<_>>().join(" | ")
}

fn describe_side(c: &CaseCfg, file: bool) -> String {
    let mut v = Vec::new();
    let mut put = |n: &str, p: &Placed| {
        if let Some(x) = if file { &p.file } else { &p.cli } {
            let shown = if n == "cookie" { x.rsplit('/').next().unwrap_or(x).to_string() } else { x.clone() };
            v.push(format!("{n}={shown}"));
        }
    };
    put("api_bind", &c.api_bind);
    put("api_port", &c.api_port);
    put("rpc_bind", &c.rpc_bind);
    put("rpc_port", &c.rpc_port);
    put("network", &c.network);
    put("user", &c.user);
    put("password", &c.password);
    put("cookie", &c.cookie);
    put("connect", &c.connect);
    put("btc_port", &c.btc_port);
    if file {
        if let Some(s) = &c.slots {
            v.push(format!("slots={s}"));
        }
        if let Some(d) = &c.duration {
            v.push(format!("duration={d}"));
        }
    }
    v.join(" ")
}
