//! C03 against the real binary: kill `teosd` at any instant, restart it, nothing acknowledged is lost.
//!
//! For a history H (directed lifecycle / scripted histories and short generated ones) the
//! uninterrupted run against a real teosd (model-checked, as in `e3`) records the database content
//! after every operation, the hook points every teosd process hit (`TEOS_VERIF_TRACE`) and the number
//! of bitcoind requests it made. Then H is re-executed once per fault:
//!   * `Abort{process, k}`  — `TEOS_VERIF_ABORT_AT=k`: the process calls `abort()` at its k-th hook
//!     point (before / after a durable write, before / after an explicit commit): a real process
//!     death with whatever sqlite left on disk (journal included);
//!   * `KillAtRequest{process, j}` — the fake bitcoind SIGKILLs the process when its j-th request
//!     arrives (every block / header download and node RPC of the bootstrap and of the history).
//! After the death teosd is started again on the same data directory by its own `main.rs`, the request
//! in flight is re-issued (a registration only if it did not take effect), H continues, and from the
//! crash onwards the database after every operation is compared with the uninterrupted run's
//! (`e1c::compare`, same tolerance: the user in flight may be short by at most that request's cost).

use crate::chain::{lock, SimChain};
use crate::e1::{scripted_case, Case, SCRIPT_KINDS};
use crate::e1c::{compare, exec_raw, lifecycle_case, short_op, LIFECYCLE_BASE};
use crate::e3::run_case_remote;
use crate::remote::{panic_in, run_remote_session, FakeBitcoind, StopMode, TeosdOpts};
use crate::report::Report;
use crate::rng::fnv;
use crate::snap::Snap;
use crate::tower::{BootError, TowerCfg};
use crate::world::{Op, Signer, World};
use serde_json::json;
use std::collections::BTreeMap;
use std::path::{Path, PathBuf};
use std::sync::Arc;

#[derive(Clone, Debug, PartialEq, Eq)]
pub enum Fault {
    Abort { process: usize, k: usize },
    KillAtRequest { process: usize, j: u64 },
}

pub struct FaultRun {
    pub violation: Option<(String, String)>,
    pub inconclusive: Option<String>,
    pub hit: bool,
    pub crashed_in: Option<String>,
    pub processes: u64,
}

enum SessionEnd {
    Done,
    RestartOp,
    Crashed,
    Violation((String, String)),
}

pub fn run_faulted(world: &mut World, cfg0: &TowerCfg, base: &Path, tag: &str, ops: &[Op], base_snaps: &[Snap], fault: &Fault, mine_down: bool, point_name: &str, salt: u64) -> FaultRun {
    let datadir = base.join(format!("teosd-f-{tag}"));
    let _ = std::fs::remove_dir_all(&datadir);
    std::fs::create_dir_all(&datadir).unwrap();
    let mut cfg = cfg0.clone();
    cfg.db_path = datadir.join("regtest").join("teos_db.sql3");
    let chain: Arc<SimChain> = Arc::new(world.simchain());
    let btc = FakeBitcoind::start(chain, world.node.clone());
    let mut fr = FaultRun { violation: None, inconclusive: None, hit: false, crashed_in: None, processes: 0 };
    let mut i = 0usize;
    let mut segment = 0usize; // index of the reference process this part of the history belongs to
    let mut armed = true;
    let mut compare_from: Option<usize> = None;
    let mut allowance: BTreeMap<Vec<u8>, u32> = BTreeMap::new();
    let mut redo_after_crash = false;
    let mut shrinking_update_in_flight = false;
    let mut tower_id = None;
    // operations already applied to the chain while teosd was down (see e1c::Fault::CrashAtMineDown)
    let mut applied_while_down: std::collections::BTreeSet<usize> = Default::default();
    loop {
        let fault_here = armed
            && match fault {
                Fault::Abort { process, .. } | Fault::KillAtRequest { process, .. } => *process == segment,
            };
        let opts = if fault_here {
            match fault {
                Fault::Abort { k, .. } => TeosdOpts { abort_at: Some(*k), ..Default::default() },
                Fault::KillAtRequest { j, .. } => TeosdOpts { kill_at_request: Some(*j), ..Default::default() },
            }
        } else {
            TeosdOpts::default()
        };
        let mut in_op = false;
        fr.processes += 1;
        let res = run_remote_session(&btc, &datadir, &cfg, &opts, StopMode::Kill, |s| -> SessionEnd {
            match tower_id {
                None => tower_id = Some(s.tower_id),
                Some(t) if t != s.tower_id => return SessionEnd::Violation(("C03:tower-id-changed".into(), "the tower id changed across the restart".into())),
                _ => {}
            }
            if redo_after_crash {
                redo_after_crash = false;
                if let Op::Register { user } = &ops[i] {
                    let id = world.users[*user].1.serialize().to_vec();
                    let now = Snap::read(&cfg.db_path).ok();
                    let took_effect = now.as_ref().and_then(|n| n.users.get(&id)).map(|u| (u.available_slots, u.expiry)) == base_snaps[i].users.get(&id).map(|u| (u.available_slots, u.expiry));
                    if took_effect {
                        i += 1;
                    }
                }
            }
            while i < ops.len() {
                if applied_while_down.contains(&i) {
                    i += 1;
                    continue;
                }
                if let Op::Restart = ops[i] {
                    i += 1;
                    return SessionEnd::RestartOp;
                }
                in_op = true;
                exec_raw(world, s, &ops[i], salt);
                if !(s.alive)() {
                    return SessionEnd::Crashed;
                }
                in_op = false;
                let did = i;
                i += 1;
                if let Some(from) = compare_from {
                    if did >= from {
                        let got = match Snap::read(&cfg.db_path) {
                            Ok(g) => g,
                            Err(e) => return SessionEnd::Violation(("C03:db-unreadable".into(), e)),
                        };
                        if let Some(v) = compare(&base_snaps[did], &got, &allowance, &format!("after operation #{did} {:?}", short_op(&ops[did]))) {
                            return SessionEnd::Violation(v);
                        }
                    }
                }
            }
            SessionEnd::Done
        });
        // a crash is a crash wherever it surfaced: inside an operation, or while the process was (re)starting
        let crashed = match &res {
            Ok(out) => matches!(out.value, SessionEnd::Crashed),
            Err(BootError::Source(e)) => fault_here && (e.contains("exited during bootstrap") || e.contains("cannot connect") || e.contains("private API")),
            Err(_) => false,
        };
        if crashed {
            if !fault_here {
                let out = match &res {
                    Ok(o) => o.output.clone(),
                    Err(e) => format!("{e:?}"),
                };
                if out.contains("Address already in use") {
                    fr.inconclusive = Some("a listening port of teosd was taken by another process".into());
                } else if let Some((loc, msg)) = panic_in(&out) {
                    fr.violation = Some((format!("C03:panic-after-fault:msg={}", crate::panics::message_class(&msg)), format!("teosd panicked at {loc}: {msg} (operation #{i})")));
                } else {
                    fr.violation = Some(("C03:process-died-after-fault".into(), format!("teosd exited on its own during operation #{i}; output tail: {}", out.lines().rev().take(4).collect::<Vec<_>>().join(" | "))));
                }
                break;
            }
            fr.hit = true;
            armed = false;
            if i < ops.len() && in_op {
                fr.crashed_in = Some(short_op(&ops[i]));
                compare_from = Some(compare_from.unwrap_or(i).min(i));
                redo_after_crash = true;
                if let (true, Op::Poll) = (mine_down, &ops[i]) {
                    let mut j = i + 1;
                    while j < ops.len() && matches!(ops[j], Op::Mine { .. }) {
                        j += 1;
                    }
                    let causal = (i + 1..j).all(|q| {
                        let blocks: &Vec<Vec<crate::world::TxRef>> = match &ops[q] {
                            Op::Mine { blocks } => blocks,
                            _ => return true,
                        };
                        let st = lock(&world.node.state);
                        blocks.iter().flatten().all(|t| match t {
                            crate::world::TxRef::Penalty(_) => st.mempool.contains_key(&world.resolve(t, salt).compute_txid()),
                            _ => true,
                        })
                    });
                    if causal && j > i + 1 && j < ops.len() && matches!(ops[j], Op::Poll) {
                        for q in i + 1..j {
                            if let Op::Mine { blocks } = &ops[q] {
                                world.mine(blocks, salt);
                            }
                            applied_while_down.insert(q);
                        }
                        compare_from = Some(j);
                        fr.crashed_in = Some("Poll+blocks-mined-while-down".into());
                    }
                }
                if let Op::Add { signer: Signer::User(u), ver, good: true, .. } = &ops[i] {
                    let id = world.users[*u].1.serialize().to_vec();
                    *allowance.entry(id).or_insert(0) += world.versions[*ver].cost();
                    let uuid = crate::model::uuid_of(world, (*u, world.versions[*ver].chan));
                    if i > 0 {
                        if let Some(old) = base_snaps[i - 1].appts.get(&uuid) {
                            let old_cost = std::cmp::max(1, (old.blob.len() as u32 + 2047) / 2048);
                            if old_cost > world.versions[*ver].cost() && !base_snaps[i - 1].trackers.contains_key(&uuid) {
                                shrinking_update_in_flight = true;
                            }
                        }
                    }
                }
            } else {
                fr.crashed_in = Some("bootstrap".into());
                compare_from = Some(compare_from.unwrap_or(i).min(i));
            }
            continue;
        }
        match res {
            Ok(out) => match out.value {
                SessionEnd::Done => break,
                SessionEnd::RestartOp => {
                    segment += 1;
                    continue;
                }
                SessionEnd::Violation(mut v) => {
                    if v.0 == "C03:slots-granted" && shrinking_update_in_flight {
                        v.0 = "C03:slots-granted:shrinking-update-in-flight".into();
                    }
                    if v.0 == "C03:response-lost" && !applied_while_down.is_empty() {
                        // same classification as in e1c: breach answered, penalty confirmed while the tower was down, the
                        // re-processed breach got 'already in chain' and no tracker was created (known finding)
                        if let (Ok(got), Some(did)) = (Snap::read(&cfg.db_path), v.1.split('#').nth(1).and_then(|x| x.split_whitespace().next()).and_then(|x| x.parse::<usize>().ok())) {
                            let basesnap = &base_snaps[did];
                            let missing: Vec<&crate::snap::TrackerRow> = basesnap.trackers.iter().filter(|(u, _)| got.appts.contains_key(*u) && !got.trackers.contains_key(*u)).map(|(_, t)| t).collect();
                            let evs = world.log.since(0);
                            let all = !missing.is_empty()
                                && missing.iter().all(|t| match bitcoin::consensus::deserialize::<bitcoin::Transaction>(&t.penalty_tx).map(|x| x.compute_txid()) {
                                    Ok(txid) => {
                                        lock(&world.chain).confirmed_height(&txid, usize::MAX).is_some()
                                            && evs.iter().any(|e| matches!(e, crate::events::Ev::Send { txid: x, verdict: crate::events::Verdict::Code(-27) } if *x == txid))
                                            && evs.iter().any(|e| matches!(e, crate::events::Ev::Send { txid: x, verdict: crate::events::Verdict::Accepted | crate::events::Verdict::AlreadyInMempool } if *x == txid))
                                    }
                                    Err(_) => false,
                                });
                            if all {
                                v.0 = "C03:response-untracked:penalty-confirmed-while-tower-down".into();
                            }
                        }
                    }
                    v.1 = format!("{} [real teosd; fault {fault:?} at {point_name}; in flight: {:?}]", v.1, fr.crashed_in);
                    fr.violation = Some(v);
                    break;
                }
                SessionEnd::Crashed => unreachable!(),
            },
            Err(e) => {
                let es = format!("{e:?}");
                if es.contains("Address already in use") || es.contains("AddrInUse") {
                    fr.inconclusive = Some("a listening port of teosd was taken by another process".into());
                } else if fr.hit {
                    fr.violation = Some(("C03:restart-failed".into(), format!("teosd failed to start on its data directory after the fault {fault:?} at {point_name}: {es}")));
                } else {
                    fr.inconclusive = Some(format!("teosd did not start: {es}"));
                }
                break;
            }
        }
    }
    btc.shutdown();
    let _ = std::fs::remove_dir_all(&datadir);
    fr
}

fn make_case(seed: u64, id: u64, dir: &PathBuf) -> Case {
    // three families in turn: lifecycle (completion / expiry run-out), scripted bootstrap situations, short generated histories
    match id % 3 {
        0 => lifecycle_case(seed, LIFECYCLE_BASE + id, dir).0,
        1 => scripted_case(seed, id, SCRIPT_KINDS[((id / 3) % SCRIPT_KINDS.len() as u64) as usize], dir),
        _ => {
            let mut c = Case::new(seed, id, "crash", dir);
            c.max_steps = c.max_steps.min(24);
            c
        }
    }
}

pub fn run(seed: u64, shard: u64, nshards: u64, cases: u64, max_faults: usize, parallel: usize, only: Option<(u64, Fault)>, only_mine_down: bool, rep: &mut Report) {
    let dir = PathBuf::from(format!("/dev/shm/tv-e3c-{}", std::process::id()));
    std::fs::create_dir_all(&dir).unwrap();
    let ids: Vec<u64> = match &only {
        Some((c, _)) => vec![*c],
        None => (0..cases).map(|i| 8_000_000 + shard + i * nshards).collect(),
    };
    for id in ids {
        // ---- uninterrupted, model-checked reference run against a real teosd
        let mut case = make_case(seed, id, &dir);
        case.probe = false;
        case.record_snaps = true;
        let pristine = case.world.fork();
        let stats = run_case_remote(&mut case, &dir, true);
        let r = rep.p("C03");
        if let Some(why) = &stats.inconclusive {
            r.eval();
            r.inconclusive += 1;
            r.note(format!("e3c history {id}: reference run: {why}"));
            continue;
        }
        if !case.viols.is_empty() || case.tolerated_divergence || case.snaps.len() != case.ops.len() {
            r.count("e3c_histories_skipped_as_reference", 1);
            if std::env::var("TV_DEBUG").is_ok() {
                eprintln!("[e3c] history {id} skipped: viols {:?} tolerated {} snaps {} ops {}", case.viols.iter().map(|v| (&v.sig, &v.detail)).collect::<Vec<_>>(), case.tolerated_divergence, case.snaps.len(), case.ops.len());
            }
            continue;
        }
        r.count("e3c_histories", 1);
        r.count("e3c_reference_processes", stats.sessions);
        r.count("e3c_hook_points_in_references", stats.points.iter().map(|p| p.len() as u64).sum());
        r.count("e3c_bitcoind_requests_in_references", stats.requests.iter().sum());
        let mut world0 = pristine;
        world0.versions = case.world.versions.clone();
        for v in &world0.versions {
            if let Some(p) = &v.penalty {
                lock(&world0.node.state).parent.insert(p.compute_txid(), world0.chans[v.chan].dtxid);
            }
        }
        // ---- fault plan
        let mut faults: Vec<(Fault, String)> = Vec::new();
        let mut mine_down_from = usize::MAX;
        match &only {
            Some((_, f)) => faults.push((f.clone(), "replay".into())),
            None => {
                let mut all: Vec<(Fault, String)> = Vec::new();
                for (p, names) in stats.points.iter().enumerate() {
                    for (k, n) in names.iter().enumerate() {
                        all.push((Fault::Abort { process: p, k: k + 1 }, n.clone()));
                    }
                }
                let mut kills: Vec<(Fault, String)> = Vec::new();
                for (p, n) in stats.requests.iter().enumerate() {
                    // the bootstrap's ~200 cache downloads are alike: first, middle, last of them, then every later request
                    for j in 1..=*n {
                        if j <= 3 || j >= 195 || j % 50 == 0 {
                            kills.push((Fault::KillAtRequest { process: p, j }, format!("bitcoind request #{j}")));
                        }
                    }
                }
                // durable-write points first (all of them if they fit), the rest of the budget for kills
                let budget_kills = max_faults.saturating_sub(all.len().min(max_faults * 2 / 3));
                let pick = |v: Vec<(Fault, String)>, n: usize| -> Vec<(Fault, String)> {
                    if v.len() <= n {
                        return v;
                    }
                    let step = v.len() as f64 / n as f64;
                    (0..n).map(|q| v[(q as f64 * step) as usize].clone()).collect()
                };
                faults.extend(pick(all, max_faults * 2 / 3));
                faults.extend(pick(kills, budget_kills.max(max_faults / 3)));
                // the same faults once more, with the history's next blocks mined while teosd is down (takes effect only
                // for faults that land in a poll followed by mining and another poll)
                mine_down_from = faults.len();
                let again: Vec<(Fault, String)> = pick(faults.clone(), max_faults / 3);
                faults.extend(again);
            }
        }
        r.count("e3c_faults_planned", faults.len() as u64);
        let cfg = case.cfg.clone();
        let results: std::sync::Mutex<Vec<(usize, FaultRun)>> = std::sync::Mutex::new(Vec::new());
        let next = std::sync::atomic::AtomicUsize::new(0);
        std::thread::scope(|sc| {
            for _ in 0..parallel.max(1).min(faults.len().max(1)) {
                sc.spawn(|| loop {
                    let q = next.fetch_add(1, std::sync::atomic::Ordering::SeqCst);
                    if q >= faults.len() {
                        break;
                    }
                    // a run whose teosd lost a listening port to a concurrent process is simply repeated
                    let mut attempt = 0;
                    let fr = loop {
                        attempt += 1;
                        let mut world = world0.fork();
                        let fr = run_faulted(&mut world, &cfg, &dir, &format!("{id}-{q}"), &case.ops, &case.snaps, &faults[q].0, q >= mine_down_from || only_mine_down, &faults[q].1, case.salt);
                        if attempt >= 3 || !fr.inconclusive.as_deref().map_or(false, |w| w.contains("listening port")) {
                            break fr;
                        }
                    };
                    results.lock().unwrap().push((q, fr));
                });
            }
        });
        let mut results = results.into_inner().unwrap();
        results.sort_by_key(|x| x.0);
        let r = rep.p("C03");
        for (q, fr) in results {
            let (f, pname) = &faults[q];
            r.eval();
            if let Some(why) = fr.inconclusive {
                r.inconclusive += 1;
                r.note(format!("e3c history {id} fault {f:?}: {why}"));
                continue;
            }
            if fr.hit {
                let cls = if pname.starts_with("bitcoind request") { "kill-at-bitcoind-request".to_string() } else { pname.clone() };
                r.count(&format!("e3c_fault_at[{cls}]"), 1);
                r.count(&format!("e3c_fault_during[{}]", fr.crashed_in.clone().unwrap_or_else(|| "?".into())), 1);
                r.nontrivial(fnv(format!("e3c:{id}:{f:?}").as_bytes()));
                r.count("e3c_teosd_processes", fr.processes);
            } else {
                r.count("e3c_faults_not_reached", 1);
            }
            if let Some((sig, detail)) = fr.violation {
                let replay = json!({"engine":"e3c","seed":seed,"case":id,"mine_down": q >= mine_down_from || only_mine_down,
                    "fault": match f { Fault::Abort{process,k} => json!({"abort":[process,k]}), Fault::KillAtRequest{process,j} => json!({"kill_at_request":[process,j]}) },
                    "ops": case.ops.iter().map(|o| o.to_json()).collect::<Vec<_>>()});
                r.violation(sig, format!("e3c history {id}: {detail}"), replay);
            }
            r.sample(|| json!({"engine": "e3c", "history": id, "fault": format!("{f:?}"), "point": pname, "in_flight": fr.crashed_in, "steps": case.ops.len()}));
        }
    }
    std::fs::remove_dir_all(&dir).ok();
}
