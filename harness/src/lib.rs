pub mod chain;
pub mod events;
pub mod e1;
pub mod e1c;
pub mod e1o;
pub mod e2;
pub mod e4;
pub mod e5;
pub mod sched;
pub mod gen;
pub mod model;
pub mod panics;
pub mod world;
pub mod node;
pub mod snap;
pub mod tower;
pub mod remote;
pub mod e3;
pub mod e3c;
pub mod e3o;
pub mod e3cfg;
pub mod e3s;
pub mod e3p;
pub mod pure_c07f;
pub mod pure_c17;
pub mod pure_c18;
pub mod pure_c19;
pub mod pure_c20;
pub mod report;
pub mod rng;

use std::collections::HashMap;

/// `--key value` style arguments.
pub struct Args {
    pub engine: String,
    kv: HashMap<String, String>,
}

impl Args {
    pub fn parse() -> Args {
        let mut it = std::env::args().skip(1);
        let engine = it.next().unwrap_or_else(|| {
            eprintln!("usage: tv <engine> [--key value]...");
            std::process::exit(2)
        });
        let mut kv = HashMap::new();
        while let Some(k) = it.next() {
            let k = k.trim_start_matches("--").to_string();
            let v = it.next().unwrap_or_default();
            kv.insert(k, v);
        }
        Args { engine, kv }
    }
    pub fn u64(&self, k: &str, default: u64) -> u64 {
        self.kv.get(k).map(|v| v.parse().unwrap_or_else(|_| panic!("bad --{k}"))).unwrap_or(default)
    }
    pub fn str(&self, k: &str, default: &str) -> String {
        self.kv.get(k).cloned().unwrap_or_else(|| default.to_string())
    }
    pub fn has(&self, k: &str) -> bool {
        self.kv.contains_key(k)
    }
}
