//! E2 `sched`: E1's tower driven by 2–3 real OS threads (one chain thread delivering block events,
//! one or two API threads) whose every lock operation goes through the scheduler observer.
//!  - C10: the outcome of every scheduled execution must equal the outcome of some sequential
//!    interleaving of the same operations (block events are the chain thread's atomic steps);
//!    the sequential outcomes are produced by scripted schedules on identical fresh towers.
//!  - C11: circular waits / stuck states observed by the scheduler, panics recorded by the hook,
//!    lock-order graph accumulated over everything executed.

use crate::chain::lock;
use crate::e1::Case;
use crate::events::Ev;
use crate::panics;
use crate::report::Report;
use crate::rng::{fnv, Rng};
use crate::sched::{Sched, SchedAbort, Stuck};
use crate::snap::Snap;
use crate::tower::{self, TowerCfg};
use crate::world::{BlobKind, Op, SigKind, Signer, TxRef, World};
use serde_json::json;
use std::collections::{BTreeMap, BTreeSet};
use std::panic::{catch_unwind, AssertUnwindSafe};
use std::path::PathBuf;
use std::sync::Arc;
use teos_common::verif::set_observer;

#[derive(Clone, Debug)]
pub enum COp {
    Register { user: usize },
    Add { ver: usize, sig: String },
    GetAppt { chan: usize, sig: String },
    GetSub { sig: String },
}

pub struct Prepared {
    pub world: World,
    pub db: Vec<u8>,
    pub cfg: TowerCfg,
}

#[derive(Clone, Debug)]
pub enum Pending {
    None,
    Mine(Vec<Vec<TxRef>>),
    Reorg(usize, Vec<Vec<TxRef>>),
    /// mined by the chain thread itself, as its first step inside the concurrent phase (a node event that is
    /// concurrent with the requests), then polled
    MineConcurrently(Vec<Vec<TxRef>>),
}

pub struct Scenario {
    /// chain change applied after the tower has bootstrapped, delivered by the concurrent poll
    pub pending: Pending,
    pub name: String,
    pub prep: Prepared,
    pub api: Vec<Vec<COp>>,
    pub poll: bool,
    /// number of blocks the poll will connect (chain segments = connects + 1)
    pub connects: usize,
    pub desc: String,
}

#[derive(Clone, Debug)]
pub enum Mode {
    /// seeded PCT schedule with this many priority change points
    Pct { seed: u64, preemptions: usize, horizon: usize },
    /// scripted sequential reference: thread names per segment
    Script(Vec<String>),
    /// real parallelism with seeded delays
    Free { seed: u64 },
    /// the real teosd binary: API threads over HTTP / gRPC, the poll granted by the fake bitcoind, seeded start delays
    Real { seed: u64 },
}

#[derive(Clone, Debug, PartialEq, Eq, PartialOrd, Ord)]
pub struct Outcome {
    /// thread -> per operation -> named fields
    pub replies: BTreeMap<String, Vec<Vec<(String, String)>>>,
    pub db: Vec<String>,
    pub rpcs: Vec<String>,
}

pub struct ExecResult {
    pub outcome: Outcome,
    pub stuck: Option<Stuck>,
    pub panics: Vec<panics::PanicRecord>,
    pub schedule_hash: u64,
    pub switches: u64,
    pub edges: BTreeSet<crate::sched::Edge>,
    pub pairs: BTreeSet<(String, String)>,
    pub decisions: Vec<String>,
    pub boot_failed: Option<String>,
}

fn fields(names: &[&str], vals: Vec<String>) -> Vec<(String, String)> {
    names.iter().map(|n| n.to_string()).zip(vals).collect()
}

fn err_fields(e: &tower::ApiErr) -> Vec<(String, String)> {
    vec![("status".into(), format!("err {:?}", e.code())), ("message".into(), e.msg().to_string())]
}

fn run_cop(world: &World, api: &crate::tower::Api, op: &COp) -> Vec<(String, String)> {
    match op {
        COp::Register { user } => match tower::register(api, world.users[*user].1.serialize().to_vec()) {
            Ok(r) => fields(&["status", "slots", "start", "expiry"], vec!["ok".into(), r.available_slots.to_string(), r.subscription_start.to_string(), r.subscription_expiry.to_string()]),
            Err(e) => err_fields(&e),
        },
        COp::Add { ver, sig } => {
            let v = &world.versions[*ver];
            match tower::add_appointment(api, world.chans[v.chan].locator.clone(), v.blob.clone(), v.tsd, sig.clone()) {
                Ok(r) => fields(&["status", "start_block", "slots", "expiry"], vec!["ok".into(), r.start_block.to_string(), r.available_slots.to_string(), r.subscription_expiry.to_string()]),
                Err(e) => err_fields(&e),
            }
        }
        COp::GetAppt { chan, sig } => match tower::get_appointment(api, world.chans[*chan].locator.clone(), sig.clone()) {
            Ok(r) => fields(&["status", "appointment_status", "data"], vec!["ok".into(), r.status.to_string(), fnv(format!("{:?}", r.appointment_data).as_bytes()).to_string()]),
            Err(e) => err_fields(&e),
        },
        COp::GetSub { sig } => match tower::get_subscription_info(api, sig.clone()) {
            Ok(r) => {
                let mut l = r.locators.clone();
                l.sort();
                fields(&["status", "slots", "expiry", "n_locators", "locators"], vec!["ok".into(), r.available_slots.to_string(), r.subscription_expiry.to_string(), l.len().to_string(), fnv(format!("{l:?}").as_bytes()).to_string()])
            }
            Err(e) => err_fields(&e),
        },
    }
}

fn canon_db(s: &Snap) -> Vec<String> {
    let mut out = Vec::new();
    for (k, u) in &s.users {
        out.push(format!("U {} slots={} start={} expiry={}", hex::encode(&k[..6]), u.available_slots, u.start, u.expiry));
    }
    for (k, a) in &s.appts {
        out.push(format!("A {} blob={} tsd={} start_block={} sig={} owner={}", hex::encode(&k[..6]), fnv(&a.blob), a.to_self_delay, a.start_block, fnv(a.user_signature.as_bytes()), hex::encode(&a.user_id[..6])));
    }
    for (k, t) in &s.trackers {
        // the height kept for an unconfirmed penalty is bookkeeping no API exposes; it legitimately depends
        // on where inside a block event a request lands
        let h = if t.confirmed { t.height.to_string() } else { "-".into() };
        out.push(format!("T {} dispute={} penalty={} confirmed={} height={h}", hex::encode(&k[..6]), fnv(&t.dispute_tx), fnv(&t.penalty_tx), t.confirmed));
    }
    out.push(format!("X fk={} last_known_block={:?}", s.fk_violations, s.last_known_block.as_ref().map(|b| hex::encode(&b[..6]))));
    out
}

static EXEC_SEQ: std::sync::atomic::AtomicU64 = std::sync::atomic::AtomicU64::new(0);

pub fn execute(sc: &Scenario, mode: &Mode, dir: &PathBuf) -> ExecResult {
    let mut world = sc.prep.world.fork();
    let n = EXEC_SEQ.fetch_add(1, std::sync::atomic::Ordering::SeqCst);
    let db_path = dir.join(format!("exec-{n}.sqlite"));
    std::fs::write(&db_path, &sc.prep.db).unwrap();
    let cfg = TowerCfg { db_path: db_path.clone(), ..sc.prep.cfg.clone() };
    let sched = match mode {
        Mode::Pct { seed, preemptions, horizon } => Sched::new(*seed, true, *preemptions, *horizon, 0),
        Mode::Script(script) => {
            let s = Sched::new(1, true, 0, 1, 0);
            s.state(|st| st.script = Some(script.clone()));
            s
        }
        Mode::Free { seed } | Mode::Real { seed } => Sched::new(*seed, false, 0, 1, 300),
    };
    let mut chain = world.simchain();
    {
        let s2 = sched.clone();
        chain.on_boundary = Some(Arc::new(move || s2.boundary()));
    }
    let node = world.node.clone();
    let log_start = std::cell::Cell::new(0usize);
    panics::take();
    set_observer(Some(sched.clone()));
    let mut replies: BTreeMap<String, Vec<Vec<(String, String)>>> = BTreeMap::new();
    let res = catch_unwind(AssertUnwindSafe(|| {
        tower::run_session(&chain, &node, &cfg, |s| {
            match &sc.pending {
                Pending::None => {}
                Pending::Mine(b) => world.mine(b, 1),
                Pending::Reorg(d, b) => world.reorg(*d, b, 1),
                Pending::MineConcurrently(_) => {}
            }
            log_start.set(world.log.len());
            // thread ids are handed out here, in a fixed order
            let chain_tid = sched.add_thread("chain", "chain");
            let api_tids: Vec<usize> = (0..sc.api.len()).map(|i| sched.add_thread(&format!("api{i}"), "api")).collect();
            let out: Vec<(String, Vec<Vec<(String, String)>>)> = std::thread::scope(|scope| {
                let mut handles = Vec::new();
                for (i, ops) in sc.api.iter().enumerate() {
                    let api = s.api.clone();
                    let sched = sched.clone();
                    let world = &world;
                    let tid = api_tids[i];
                    handles.push(scope.spawn(move || {
                        sched.attach(tid);
                        let r = catch_unwind(AssertUnwindSafe(|| {
                            sched.thread_start();
                            ops.iter().map(|op| run_cop(world, &api, op)).collect::<Vec<_>>()
                        }));
                        sched.thread_finish();
                        let rs = match r {
                            Ok(v) => v,
                            Err(p) => vec![vec![("status".to_string(), if p.downcast_ref::<SchedAbort>().is_some() { "ABORTED".to_string() } else { "PANIC".to_string() })]],
                        };
                        (format!("api{i}"), rs)
                    }));
                }
                sched.attach(chain_tid);
                sched.go();
                let r = catch_unwind(AssertUnwindSafe(|| {
                    sched.thread_start();
                    if let Pending::MineConcurrently(b) = &sc.pending {
                        world.mine(b, 1);
                    }
                    if sc.poll {
                        s.poller.poll();
                    }
                }));
                sched.thread_finish();
                let mut out = vec![("chain".to_string(), vec![vec![("status".to_string(), match r {
                    Ok(_) => "done".to_string(),
                    Err(p) => if p.downcast_ref::<SchedAbort>().is_some() { "ABORTED".to_string() } else { "PANIC".to_string() },
                })]])];
                for h in handles {
                    out.push(h.join().unwrap_or(("?".into(), vec![vec![("status".into(), "JOIN-PANIC".into())]])));
                }
                out
            });
            out
        })
    }));
    set_observer(None);
    let mut boot_failed = None;
    match res {
        Ok(Ok(out)) => {
            for (k, v) in out {
                replies.insert(k, v);
            }
        }
        Ok(Err(e)) => boot_failed = Some(format!("{e:?}")),
        Err(_) => boot_failed = Some("panic outside the worker threads".into()),
    }
    let snap = Snap::read(&db_path).unwrap_or_default();
    let mut rpcs: Vec<String> = world
        .log
        .since(log_start.get())
        .iter()
        .filter_map(|e| match e {
            Ev::Send { txid, verdict } => Some(format!("send {} {verdict:?}", &txid.to_string()[..8])),
            _ => None,
        })
        .collect();
    rpcs.sort();
    let outcome = Outcome { replies, db: canon_db(&snap), rpcs };
    let _ = std::fs::remove_file(&db_path);
    let mut recs = panics::take();
    if recs.iter().any(|r| !r.message.contains("PoisonError")) {
        recs.retain(|r| !r.message.contains("PoisonError"));
    }
    sched.state(|st| ExecResult {
        outcome,
        stuck: st.stuck.clone(),
        panics: recs,
        schedule_hash: fnv(st.decisions.join(",").as_bytes()),
        switches: st.switches,
        edges: st.edges.clone(),
        pairs: st.interleaved_pairs.clone(),
        decisions: st.decisions.clone(),
        boot_failed,
    })
}

/// The scenario against a real teosd process (see `remote.rs`): the prepared database is put in place,
/// teosd bootstraps on it, the pending chain change is applied, then the API threads (real HTTP / gRPC
/// clients) and the poll run concurrently, each after a seeded delay of 0-4 ms. Nothing is scheduled:
/// the interleaving is whatever the OS and teosd's runtime make of it.
pub fn execute_real(sc: &Scenario, seed: u64, dir: &PathBuf) -> ExecResult {
    use crate::remote::{panic_in, run_remote_session, FakeBitcoind, StopMode, TeosdOpts};
    let mut world = sc.prep.world.fork();
    let n = EXEC_SEQ.fetch_add(1, std::sync::atomic::Ordering::SeqCst);
    let datadir = dir.join(format!("real-{n}"));
    let _ = std::fs::remove_dir_all(&datadir);
    std::fs::create_dir_all(datadir.join("regtest")).unwrap();
    let db_path = datadir.join("regtest").join("teos_db.sql3");
    std::fs::write(&db_path, &sc.prep.db).unwrap();
    let cfg = TowerCfg { db_path: db_path.clone(), ..sc.prep.cfg.clone() };
    let chain = Arc::new(world.simchain());
    let btc = FakeBitcoind::start(chain, world.node.clone());
    let mut rng = Rng::new(seed);
    let delays: Vec<u64> = (0..sc.api.len() + 1).map(|_| rng.below(4000)).collect();
    let mut log_start = 0usize;
    let mut replies: BTreeMap<String, Vec<Vec<(String, String)>>> = BTreeMap::new();
    let res = run_remote_session(&btc, &datadir, &cfg, &TeosdOpts::default(), StopMode::Kill, |s| {
        match &sc.pending {
            Pending::None => {}
            Pending::Mine(b) => world.mine(b, 1),
            Pending::Reorg(d, b) => world.reorg(*d, b, 1),
            Pending::MineConcurrently(_) => {}
        }
        log_start = world.log.len();
        if let crate::tower::Api::Remote(r) = &s.api {
            r.call_timeout_ms.store(20_000, std::sync::atomic::Ordering::SeqCst);
        }
        let out: Vec<(String, Vec<Vec<(String, String)>>)> = std::thread::scope(|scope| {
            let mut handles = Vec::new();
            for (i, ops) in sc.api.iter().enumerate() {
                let api = s.api.clone();
                let world = &world;
                let d = delays[i];
                handles.push(scope.spawn(move || {
                    std::thread::sleep(std::time::Duration::from_micros(d));
                    (format!("api{i}"), ops.iter().map(|op| run_cop(world, &api, op)).collect::<Vec<_>>())
                }));
            }
            let mut out = Vec::new();
            std::thread::sleep(std::time::Duration::from_micros(delays[sc.api.len()]));
            if let Pending::MineConcurrently(b) = &sc.pending {
                world.mine(b, 1);
            }
            let st = if sc.poll {
                match btc.grant_poll(std::time::Duration::from_secs(30), &mut || true) {
                    Ok(()) => "done".to_string(),
                    Err(e) => format!("STUCK {e}"),
                }
            } else {
                "done".to_string()
            };
            out.push(("chain".to_string(), vec![vec![("status".to_string(), st)]]));
            for h in handles {
                out.push(h.join().unwrap_or(("?".into(), vec![vec![("status".into(), "JOIN-PANIC".into())]])));
            }
            out
        });
        out
    });
    let mut boot_failed = None;
    let mut panics_seen: Vec<panics::PanicRecord> = Vec::new();
    match res {
        Ok(out) => {
            if out.output.contains("Address already in use") {
                boot_failed = Some("a listening port of teosd was taken by another process".into());
            } else if let Some((loc, msg)) = panic_in(&out.output) {
                panics_seen.push(panics::PanicRecord { thread: "teosd".into(), function: "teosd".into(), message: msg, location: loc });
            }
            for (k, v) in out.value {
                replies.insert(k, v);
            }
        }
        Err(e) => boot_failed = Some(format!("{e:?}")),
    }
    let snap = Snap::read(&db_path).unwrap_or_default();
    let mut rpcs: Vec<String> = world
        .log
        .since(log_start)
        .iter()
        .filter_map(|e| match e {
            Ev::Send { txid, verdict } => Some(format!("send {} {verdict:?}", &txid.to_string()[..8])),
            _ => None,
        })
        .collect();
    rpcs.sort();
    btc.shutdown();
    let _ = std::fs::remove_dir_all(&datadir);
    ExecResult {
        outcome: Outcome { replies, db: canon_db(&snap), rpcs },
        stuck: None,
        panics: panics_seen,
        schedule_hash: seed,
        switches: 0,
        edges: BTreeSet::new(),
        pairs: BTreeSet::new(),
        decisions: Vec::new(),
        boot_failed,
    }
}

/// All interleavings of the chain thread's segments with the API threads (one segment each).
fn interleavings(chain_segments: usize, n_api: usize) -> Vec<Vec<String>> {
    fn rec(rem_chain: usize, rem_api: &mut Vec<usize>, cur: &mut Vec<String>, out: &mut Vec<Vec<String>>) {
        if rem_chain == 0 && rem_api.is_empty() {
            out.push(cur.clone());
            return;
        }
        if rem_chain > 0 {
            cur.push("chain".into());
            rec(rem_chain - 1, rem_api, cur, out);
            cur.pop();
        }
        for i in 0..rem_api.len() {
            let a = rem_api.remove(i);
            cur.push(format!("api{a}"));
            rec(rem_chain, rem_api, cur, out);
            cur.pop();
            rem_api.insert(i, a);
        }
    }
    let mut out = Vec::new();
    rec(chain_segments, &mut (0..n_api).collect(), &mut Vec::new(), &mut out);
    out
}

// ------------------------------------------------------------------------------------------------
// scenario construction

struct Builder {
    case: Case,
    dir: PathBuf,
}

impl Builder {
    fn new(seed: u64, id: u64, dir: &PathBuf, slots: u32, duration: u32, grace: u32) -> Builder {
        let mut case = Case::new(seed, id, "mixed", dir);
        case.cfg.slots = slots;
        case.cfg.duration = duration;
        case.cfg.grace = grace;
        case.model.s = slots;
        case.model.d = duration;
        case.model.g = grace;
        case.script = Some(Vec::new());
        Builder { case, dir: dir.clone() }
    }
    fn push(&mut self, op: Op) {
        self.case.script.as_mut().unwrap().push(op);
    }
    fn version(&mut self, chan: usize, kind: BlobKind, len: usize) -> usize {
        let mut rng = self.case.rng.fork(7);
        self.case.world.new_version(&mut rng, chan, kind, len)
    }
    fn sig_add(&mut self, user: usize, ver: usize) -> String {
        let msg = self.case.world.versions[ver].msg(&self.case.world.chans);
        let mut rng = Rng::new(1);
        self.case.world.sign(&mut rng, Signer::User(user), &msg, SigKind::Good)
    }
    fn sig_msg(&mut self, user: usize, msg: &[u8]) -> String {
        let mut rng = Rng::new(1);
        self.case.world.sign(&mut rng, Signer::User(user), msg, SigKind::Good)
    }
    fn add(&mut self, user: usize, ver: usize) {
        let sig = self.sig_add(user, ver);
        self.push(Op::Add { signer: Signer::User(user), ver, sig, good: true });
    }
    fn mine_poll(&mut self, blocks: Vec<Vec<TxRef>>) {
        self.push(Op::Mine { blocks });
        self.push(Op::Poll);
    }
    /// Runs the setup through the E1 machinery (model-checked) and freezes the result.
    fn freeze(mut self) -> Result<Prepared, String> {
        let n = self.case.script.as_ref().unwrap().len();
        self.case.max_steps = n;
        // keep the database: run_case deletes it, so run the session by hand
        let chain = {
            let mut c = self.case.world.simchain();
            c.snap_path = Some(self.case.cfg.db_path.clone());
            c
        };
        let node = self.case.world.node.clone();
        let cfg = self.case.cfg.clone();
        let case = &mut self.case;
        let boot = case.world.log.len();
        case.model.on_restart(boot);
        let r = tower::run_session(&chain, &node, &cfg, |s| {
            let fp = s.first_poll_log_idx;
            case.on_session_start(s, fp);
            while !case.stopped && case.steps < n {
                let op = case.script.as_ref().unwrap()[case.steps].clone();
                case.steps += 1;
                case.exec(s, &op);
            }
        });
        if let Err(e) = r {
            return Err(format!("setup bootstrap failed: {e:?}"));
        }
        if !self.case.viols.is_empty() {
            return Err(format!("setup violated a sequential monitor: {} {}", self.case.viols[0].sig, self.case.viols[0].detail));
        }
        let db = std::fs::read(&self.case.cfg.db_path).map_err(|e| e.to_string())?;
        let _ = std::fs::remove_file(&self.case.cfg.db_path);
        let _ = &self.dir;
        Ok(Prepared { world: self.case.world, db, cfg })
    }
}

/// Builds the scenario instances for a seed. Sizes / users / channels vary with the seed.
pub fn scenarios(seed: u64, dir: &PathBuf) -> Vec<Scenario> {
    let mut out = Vec::new();
    let mut rng = Rng::stream(seed, 0xE2, 0);
    let mut id = 0u64;
    let mut next_id = || {
        id += 1;
        1_000_000 + id
    };
    let size = |rng: &mut Rng| *rng.pick(&[200usize, 2048, 2049, 4097]);

    // S1: the same appointment submitted twice concurrently
    {
        let mut b = Builder::new(seed, next_id(), dir, 5, 500, 6);
        b.push(Op::Register { user: 0 });
        let v = b.version(0, BlobKind::Valid, size(&mut rng));
        let sig = b.sig_add(0, v);
        if let Ok(prep) = b.freeze() {
            out.push(Scenario { pending: Pending::None, name: "same-appointment-twice".into(), prep, api: vec![vec![COp::Add { ver: v, sig: sig.clone() }], vec![COp::Add { ver: v, sig }]], poll: false, connects: 0, desc: "two concurrent submissions of the same appointment by the same user".into() });
        }
    }
    // S2: appointment accepted while the block with its dispute is being processed
    for kind in [BlobKind::Valid, BlobKind::Garbage] {
        let mut b = Builder::new(seed, next_id(), dir, 5, 500, 6);
        b.push(Op::Register { user: 0 });
        let v = b.version(1, kind, size(&mut rng));
        let sig = b.sig_add(0, v);
        if let Ok(prep) = b.freeze() {
            out.push(Scenario { pending: Pending::Mine(vec![vec![TxRef::Dispute(1), TxRef::Filler(1)]]), name: format!("add-vs-dispute-block[{kind:?}]"), prep, api: vec![vec![COp::Add { ver: v, sig }]], poll: true, connects: 1, desc: "add_appointment concurrent with the block that contains its dispute".into() });
        }
    }
    // S3: renewal concurrent with a submission by the same user
    {
        let mut b = Builder::new(seed, next_id(), dir, 3, 500, 6);
        b.push(Op::Register { user: 0 });
        let v = b.version(0, BlobKind::Valid, size(&mut rng));
        let sig = b.sig_add(0, v);
        if let Ok(prep) = b.freeze() {
            out.push(Scenario { pending: Pending::None, name: "renew-vs-add".into(), prep, api: vec![vec![COp::Register { user: 0 }], vec![COp::Add { ver: v, sig }]], poll: false, connects: 0, desc: "register (renewal) concurrent with add_appointment of the same user".into() });
        }
    }
    // S4: submission concurrent with the block that completes a tracker of the same user (refund)
    {
        let mut b = Builder::new(seed, next_id(), dir, 5, 500, 6);
        b.push(Op::Register { user: 0 });
        let v = b.version(2, BlobKind::Valid, 300);
        b.add(0, v);
        b.mine_poll(vec![vec![TxRef::Dispute(2)]]);
        b.mine_poll(vec![vec![TxRef::Penalty(v)]]);
        b.mine_poll((0..99).map(|_| vec![]).collect());
        let v2 = b.version(3, BlobKind::Valid, size(&mut rng));
        let sig = b.sig_add(0, v2);
        if let Ok(prep) = b.freeze() {
            out.push(Scenario { pending: Pending::Mine(vec![vec![]]), name: "add-vs-completion-refund".into(), prep, api: vec![vec![COp::Add { ver: v2, sig }]], poll: true, connects: 1, desc: "add_appointment concurrent with the block that buries the user's penalty 100 deep (refund)".into() });
        }
    }
    // S5: submission concurrent with the block that purges the user
    {
        let mut b = Builder::new(seed, next_id(), dir, 5, 3, 0);
        b.push(Op::Register { user: 0 });
        b.push(Op::Register { user: 1 });
        b.mine_poll(vec![vec![], vec![]]);
        let v = b.version(0, BlobKind::Valid, size(&mut rng));
        let sig = b.sig_add(0, v);
        let gs = b.sig_msg(0, b"get subscription info");
        if let Ok(prep) = b.freeze() {
            out.push(Scenario { pending: Pending::Mine(vec![vec![]]), name: "add-vs-purge".into(), prep, api: vec![vec![COp::Add { ver: v, sig }], vec![COp::GetSub { sig: gs }]], poll: true, connects: 1, desc: "add_appointment / get_subscription_info concurrent with the block that purges the user".into() });
        }
    }
    // S5b: renewal concurrent with the block that purges the user (with an appointment attached)
    {
        let mut b = Builder::new(seed, next_id(), dir, 5, 3, 0);
        b.push(Op::Register { user: 0 });
        b.push(Op::Register { user: 1 });
        let v = b.version(1, BlobKind::Valid, 300);
        b.add(0, v);
        b.mine_poll(vec![vec![], vec![]]);
        if let Ok(prep) = b.freeze() {
            out.push(Scenario { pending: Pending::Mine(vec![vec![]]), name: "renew-vs-purge".into(), prep, api: vec![vec![COp::Register { user: 0 }]], poll: true, connects: 1, desc: "register (renewal) concurrent with the block that purges that very user".into() });
        }
    }
    // S6: read concurrent with the dispute block
    {
        let mut b = Builder::new(seed, next_id(), dir, 5, 500, 6);
        b.push(Op::Register { user: 0 });
        let v = b.version(4 % 4, BlobKind::Valid, 300);
        b.add(0, v);
        let chan = b.case.world.versions[v].chan;
        let msg = format!("get appointment {}", hex::encode(&b.case.world.chans[chan].locator));
        let sig = b.sig_msg(0, msg.as_bytes());
        if let Ok(prep) = b.freeze() {
            out.push(Scenario { pending: Pending::Mine(vec![vec![TxRef::Dispute(chan)]]), name: "get-vs-dispute-block".into(), prep, api: vec![vec![COp::GetAppt { chan, sig }]], poll: true, connects: 1, desc: "get_appointment concurrent with the block that contains the dispute".into() });
        }
    }
    // S7: update concurrent with the dispute block
    {
        let mut b = Builder::new(seed, next_id(), dir, 5, 500, 6);
        b.push(Op::Register { user: 0 });
        let v = b.version(1, BlobKind::Valid, 300);
        b.add(0, v);
        let v2 = b.version(1, BlobKind::Valid, size(&mut rng));
        let sig = b.sig_add(0, v2);
        if let Ok(prep) = b.freeze() {
            out.push(Scenario { pending: Pending::Mine(vec![vec![TxRef::Dispute(1)]]), name: "update-vs-dispute-block".into(), prep, api: vec![vec![COp::Add { ver: v2, sig }]], poll: true, connects: 1, desc: "replacing an appointment concurrent with the block that contains its dispute".into() });
        }
    }
    // S8: submission concurrent with a one-block reorg (disconnect + two connects)
    {
        let mut b = Builder::new(seed, next_id(), dir, 5, 500, 6);
        b.push(Op::Register { user: 0 });
        b.mine_poll(vec![vec![TxRef::Filler(7)]]);
        let v = b.version(2, BlobKind::Valid, size(&mut rng));
        let sig = b.sig_add(0, v);
        if let Ok(prep) = b.freeze() {
            out.push(Scenario { pending: Pending::Reorg(1, vec![vec![TxRef::Filler(8)], vec![TxRef::Dispute(2)]]), name: "add-vs-reorg".into(), prep, api: vec![vec![COp::Add { ver: v, sig }]], poll: true, connects: 2, desc: "add_appointment concurrent with a block disconnection followed by two connections (the second holds its dispute)".into() });
        }
    }
    // S9: two users, same locator, concurrent with the dispute block
    {
        let mut b = Builder::new(seed, next_id(), dir, 5, 500, 6);
        b.push(Op::Register { user: 0 });
        b.push(Op::Register { user: 1 });
        let v = b.version(3, BlobKind::Valid, 300);
        let s0 = b.sig_add(0, v);
        let s1 = b.sig_add(1, v);
        if let Ok(prep) = b.freeze() {
            out.push(Scenario { pending: Pending::Mine(vec![vec![TxRef::Dispute(3)]]), name: "two-users-same-locator-vs-dispute-block".into(), prep, api: vec![vec![COp::Add { ver: v, sig: s0 }], vec![COp::Add { ver: v, sig: s1 }]], poll: true, connects: 1, desc: "two users submit the same locator while the block with the dispute is processed".into() });
        }
    }
    // S10: late appointment (dispute already in the window) concurrent with a block that makes a stale
    // tracker of another user be rebroadcast
    {
        let mut b = Builder::new(seed, next_id(), dir, 5, 500, 6);
        b.push(Op::Register { user: 0 });
        b.push(Op::Register { user: 1 });
        let v = b.version(0, BlobKind::Valid, 300);
        b.add(0, v);
        b.mine_poll(vec![vec![TxRef::Dispute(0)]]);
        b.mine_poll((0..5).map(|_| vec![]).collect());
        b.mine_poll(vec![vec![TxRef::Dispute(1)]]);
        let v2 = b.version(1, BlobKind::Valid, 300);
        let sig = b.sig_add(1, v2);
        if let Ok(prep) = b.freeze() {
            out.push(Scenario { pending: Pending::Mine(vec![vec![]]), name: "late-add-vs-rebroadcast-block".into(), prep, api: vec![vec![COp::Add { ver: v2, sig }]], poll: true, connects: 1, desc: "an appointment whose dispute is already in the six-block window, concurrent with a block in which a stale penalty is rebroadcast".into() });
        }
    }
    // S11: two registrations of the same new user
    {
        let b = Builder::new(seed, next_id(), dir, 5, 500, 6);
        if let Ok(prep) = b.freeze() {
            out.push(Scenario { pending: Pending::None, name: "register-twice".into(), prep, api: vec![vec![COp::Register { user: 0 }], vec![COp::Register { user: 0 }]], poll: false, connects: 0, desc: "two concurrent registrations of the same new user".into() });
        }
    }
    // S12: three-way: add, subscription info, dispute block
    {
        let mut b = Builder::new(seed, next_id(), dir, 5, 500, 6);
        b.push(Op::Register { user: 0 });
        let v = b.version(2, BlobKind::Valid, 300);
        b.add(0, v);
        let v2 = b.version(3, BlobKind::Valid, size(&mut rng));
        let sig = b.sig_add(0, v2);
        let gs = b.sig_msg(0, b"get subscription info");
        if let Ok(prep) = b.freeze() {
            out.push(Scenario { pending: Pending::Mine(vec![vec![TxRef::Dispute(2), TxRef::Dispute(3)]]), name: "add+info-vs-dispute-block".into(), prep, api: vec![vec![COp::Add { ver: v2, sig }], vec![COp::GetSub { sig: gs }]], poll: true, connects: 1, desc: "add_appointment and get_subscription_info concurrent with a block holding two disputes".into() });
        }
    }
    // S13: a late appointment whose penalty is already confirmed in the tip block (somebody else broadcast it),
    // concurrent with a reorg that disconnects that very block: whichever comes first, the tracker must not end up
    // 'confirmed' in a block that is not in the chain any more
    {
        let mut b = Builder::new(seed, next_id(), dir, 5, 500, 6);
        b.push(Op::Register { user: 0 });
        let v = b.version(0, BlobKind::Valid, 300);
        let sig = b.sig_add(0, v);
        b.mine_poll(vec![vec![TxRef::Dispute(0), TxRef::Penalty(v)]]);
        if let Ok(prep) = b.freeze() {
            out.push(Scenario { pending: Pending::Reorg(1, vec![vec![TxRef::Filler(21)], vec![TxRef::Filler(22)]]), name: "late-add-vs-reorg-of-penalty-block".into(), prep, api: vec![vec![COp::Add { ver: v, sig }]], poll: true, connects: 2, desc: "an appointment whose dispute and penalty sit in the tip block, concurrent with the reorg that disconnects that block".into() });
        }
    }
    // S14: an appointment concurrent with the block that holds both its dispute and its penalty
    {
        let mut b = Builder::new(seed, next_id(), dir, 5, 500, 6);
        b.push(Op::Register { user: 0 });
        let v = b.version(1, BlobKind::Valid, size(&mut rng));
        let sig = b.sig_add(0, v);
        if let Ok(prep) = b.freeze() {
            out.push(Scenario { pending: Pending::Mine(vec![vec![TxRef::Dispute(1), TxRef::Penalty(v)]]), name: "add-vs-block-with-dispute-and-penalty".into(), prep, api: vec![vec![COp::Add { ver: v, sig }]], poll: true, connects: 1, desc: "add_appointment concurrent with the block that contains its dispute and (broadcast by somebody else) its penalty".into() });
        }
    }
    // S15: a dispute already in the window; user 0 submits the appointment late (the penalty goes to the node's mempool,
    // its receipt into the Carrier's cache), the node then mines the penalty (a node event inside the concurrent phase),
    // user 1 submits the same appointment: whatever the order, trackers that exist end up confirmed in that block
    {
        let mut b = Builder::new(seed, next_id(), dir, 5, 500, 6);
        b.push(Op::Register { user: 0 });
        b.push(Op::Register { user: 1 });
        let v = b.version(2, BlobKind::Valid, 300);
        b.mine_poll(vec![vec![TxRef::Dispute(2)]]);
        let s0 = b.sig_add(0, v);
        let s1 = b.sig_add(1, v);
        if let Ok(prep) = b.freeze() {
            out.push(Scenario { pending: Pending::MineConcurrently(vec![vec![TxRef::Penalty(v)]]), name: "two-late-adds-vs-block-confirming-penalty".into(), prep, api: vec![vec![COp::Add { ver: v, sig: s0 }], vec![COp::Add { ver: v, sig: s1 }]], poll: true, connects: 1, desc: "two users submit an appointment for a dispute already in the window while the node mines the penalty and the tower processes that block".into() });
        }
    }
    out
}

fn stuck_sig(s: &Stuck) -> String {
    if !s.cycle.is_empty() {
        let mut c = s.cycle.clone();
        c.sort();
        c.dedup();
        format!("C11:lock-cycle:{{{}}}", c.join(","))
    } else {
        let mut w: Vec<String> = s.threads.iter().map(|t| format!("{}:{}", t.1, t.3.replace(' ', "_"))).collect();
        w.sort();
        format!("C11:stuck:{}", w.join("|"))
    }
}

pub fn run(seed: u64, shard: u64, nshards: u64, schedules_per_scenario: u64, free_runs: u64, real_runs: u64, only: Option<(String, Mode)>, rep: &mut Report) {
    panics::install();
    let dir = PathBuf::from(format!("/dev/shm/tv-e2-{}", std::process::id()));
    std::fs::create_dir_all(&dir).unwrap();
    let scs = scenarios(seed.wrapping_add(shard / 4), &dir);
    let mut all_edges: BTreeSet<crate::sched::Edge> = BTreeSet::new();
    let mut all_pairs: BTreeSet<(String, String)> = BTreeSet::new();
    for (si, sc) in scs.iter().enumerate() {
        if let Some((name, _)) = &only {
            if *name != sc.name {
                continue;
            }
        }
        // ---- sequential reference outcomes (scripted schedules); each interleaving is run twice to
        // absorb map-iteration non-determinism inside one operation
        let mut refs: BTreeSet<Outcome> = BTreeSet::new();
        let inter = interleavings(if sc.poll { sc.connects + 1 } else { 0 }, sc.api.len());
        let mut ref_problem = None;
        let mut horizon = 10usize;
        for script in &inter {
            for _ in 0..2 {
                let r = execute(sc, &Mode::Script(script.clone()), &dir);
                if r.stuck.is_some() || !r.panics.is_empty() || r.boot_failed.is_some() {
                    ref_problem = Some((script.clone(), r));
                    break;
                }
                // scheduling points = lock acquisitions (recorded as decisions) + their releases + thread starts / block
                // boundaries: change points must be able to fall anywhere in the execution, not only in its first half
                horizon = horizon.max(2 * r.decisions.len() + 8);
                refs.insert(r.outcome);
            }
        }
        if let Some((script, r)) = ref_problem {
            // a sequential execution that panics / sticks is a finding on its own (C11)
            let replay = json!({"engine":"e2","seed":seed,"shard":shard,"scenario":sc.name,"mode":{"script":script}});
            if let Some(st) = &r.stuck {
                rep.p("C11").violation(stuck_sig(st), format!("scenario {}: sequential schedule {script:?} got stuck: {:?}", sc.name, st.threads), replay.clone());
            }
            for p in &r.panics {
                rep.p("C11").violation(format!("C11:panic:fn={}:msg={}", p.function, panics::message_class(&p.message)), format!("scenario {}: sequential schedule {script:?}: panic at {} in {}: {}", sc.name, p.location, p.function, p.message), replay.clone());
            }
            if let Some(b) = &r.boot_failed {
                rep.p("C10").inconclusive += 1;
                rep.p("C10").note(format!("scenario {}: bootstrap failed in a reference execution: {b}", sc.name));
            }
            continue;
        }
        if std::env::var("TV_DEBUG").is_ok() {
            eprintln!("=== scenario {} refs={}", sc.name, refs.len());
            for r in &refs {
                eprintln!("--- ref outcome:\n{r:#?}");
            }
            let r = execute(sc, &Mode::Pct { seed: 5, preemptions: 2, horizon }, &dir);
            eprintln!("--- sample pct schedule ({} decisions, {} switches): {:?}", r.decisions.len(), r.switches, r.decisions);
        }
        rep.p("C10").count("sequential_reference_outcomes", refs.len() as u64);
        rep.p("C10").count("sequential_interleavings_executed", inter.len() as u64);
        // ---- scheduled executions
        let modes: Vec<Mode> = match &only {
            Some((_, m)) => vec![m.clone()],
            None => {
                let mut v = Vec::new();
                for k in 0..schedules_per_scenario {
                    let s = seed.wrapping_mul(1_000_003).wrapping_add(shard * 1_000_000 + si as u64 * 10_000 + k);
                    v.push(Mode::Pct { seed: s, preemptions: (k % 4) as usize, horizon });
                }
                for k in 0..free_runs {
                    v.push(Mode::Free { seed: seed.wrapping_mul(77).wrapping_add(shard * 1000 + si as u64 * 100 + k) });
                }
                for k in 0..real_runs {
                    v.push(Mode::Real { seed: seed.wrapping_mul(91).wrapping_add(shard * 100_000 + si as u64 * 1000 + k) });
                }
                v
            }
        };
        let _ = nshards;
        for m in modes {
            let r = match &m {
                Mode::Real { seed } => execute_real(sc, *seed, &dir),
                _ => execute(sc, &m, &dir),
            };
            let replay = json!({"engine":"e2","seed":seed,"shard":shard,"scenario":sc.name,"mode": match &m { Mode::Pct{seed,preemptions,horizon} => json!({"pct":[seed,preemptions,horizon]}), Mode::Free{seed} => json!({"free":seed}), Mode::Real{seed} => json!({"real":seed}), Mode::Script(s) => json!({"script":s}) }});
            all_edges.extend(r.edges.iter().cloned());
            all_pairs.extend(r.pairs.iter().cloned());
            for pid in ["C10", "C11"] {
                let p = rep.p(pid);
                p.eval();
                p.count(&format!("executions[{}]", sc.name), 1);
                p.count("context_switches", r.switches);
                if let Mode::Real { .. } = m {
                    p.count(&format!("real_teosd_executions[{}]", sc.name), 1);
                }
                if r.switches > 0 || matches!(m, Mode::Free { .. } | Mode::Real { .. }) {
                    p.nontrivial(fnv(format!("{}:{}", sc.name, r.schedule_hash).as_bytes()));
                }
                p.sample(|| json!({"scenario": sc.name, "what": sc.desc, "mode": format!("{m:?}"), "schedule": r.decisions.iter().take(60).collect::<Vec<_>>()}));
            }
            if let Some(b) = &r.boot_failed {
                rep.p("C10").inconclusive += 1;
                rep.p("C10").note(format!("scenario {}: {b}", sc.name));
                continue;
            }
            let mut c11_hit = false;
            if let Some(st) = &r.stuck {
                c11_hit = true;
                rep.p("C11").violation(stuck_sig(st), format!("scenario {} ({}), {m:?}: no thread can make progress. Threads (name, class, holds, waits for): {:?}", sc.name, sc.desc, st.threads), replay.clone());
            }
            for p in &r.panics {
                c11_hit = true;
                rep.p("C11").violation(format!("C11:panic:fn={}:msg={}", p.function, panics::message_class(&p.message)), format!("scenario {} ({}), {m:?}: thread {} panicked at {} in {}: {}", sc.name, sc.desc, p.thread, p.location, p.function, p.message), replay.clone());
            }
            if let Mode::Real { .. } = m {
                let no_answer: Vec<String> = r.outcome.replies.iter().filter(|(_, ops)| ops.iter().any(|f| f.iter().any(|(k, v)| (k == "status" && (v.contains("DeadlineExceeded") || v.starts_with("STUCK")))))).map(|(t, _)| t.clone()).collect();
                if !no_answer.is_empty() {
                    c11_hit = true;
                    rep.p("C11").violation(format!("C11:no-progress:real-teosd:{}", sc.name), format!("scenario {} ({}), real teosd: {no_answer:?} got no answer within 20 s (requests and the block event ran concurrently): {:?}", sc.name, sc.desc, r.outcome.replies), replay.clone());
                }
            }
            if c11_hit {
                // the outcome of an execution that deadlocked / aborted is not comparable
                continue;
            }
            if !refs.contains(&r.outcome) {
                // which named sub-oracle?
                let (detail, parts) = diff_against(&r.outcome, &refs);
                rep.p("C10").violation(format!("C10:not-linearizable:{}:{parts}", sc.name), format!("scenario {} ({}), {m:?}: the outcome equals none of the {} sequential outcomes. {detail}", sc.name, sc.desc, refs.len()), replay);
            } else {
                rep.p("C10").count("outcomes_matched", 1);
                if let Mode::Real { .. } = m {
                    // which sequential order did the real execution look like?
                    let idx = refs.iter().position(|o| *o == r.outcome).unwrap_or(0);
                    rep.p("C10").nontrivial(fnv(format!("real:{}:{idx}", sc.name).as_bytes()));
                    rep.p("C10").count(&format!("real_teosd_matched_reference[{}#{idx}]", sc.name), 1);
                }
            }
        }
    }
    rep.p("C11").count("lock_order_edges", all_edges.len() as u64);
    rep.p("C10").count("distinct_adjacent_sync_pairs", all_pairs.len() as u64);
    // lock-order graph: report 2-cycles between concurrently runnable classes as predictions (not verdicts)
    let mut predicted = BTreeSet::new();
    for a in &all_edges {
        for b in &all_edges {
            if a.from == b.to && a.to == b.from && a.from < a.to {
                let disjoint = a.gates.iter().all(|g| !b.gates.contains(g));
                if disjoint {
                    predicted.insert(format!("{} <-> {} ({} / {})", a.from, a.to, a.class, b.class));
                }
            }
        }
    }
    for p in predicted {
        rep.p("C11").note(format!("lock-order inversion predicted (not a verdict unless a circular wait manifests): {p}"));
        rep.p("C11").count("predicted_lock_order_inversions", 1);
    }
    for e in all_edges.iter().take(40) {
        rep.p("C11").note(format!("lock order edge: {} -> {} [{}; gates {:?}]", e.from, e.to, e.class, e.gates));
    }
    std::fs::remove_dir_all(&dir).ok();
}

fn diff_against(got: &Outcome, refs: &BTreeSet<Outcome>) -> (String, String) {
    fn labels(got: &Outcome, r: &Outcome) -> BTreeSet<String> {
        let mut l = BTreeSet::new();
        for (t, ops) in &got.replies {
            let rops = r.replies.get(t);
            for (i, f) in ops.iter().enumerate() {
                let rf = rops.and_then(|o| o.get(i));
                match rf {
                    None => {
                        l.insert(format!("{t}.missing"));
                    }
                    Some(rf) => {
                        let gs = f.iter().find(|x| x.0 == "status").map(|x| &x.1);
                        let rs = rf.iter().find(|x| x.0 == "status").map(|x| &x.1);
                        if gs != rs {
                            l.insert(format!("{t}.status"));
                        } else {
                            for (name, val) in f {
                                if rf.iter().find(|x| x.0 == *name).map(|x| &x.1) != Some(val) {
                                    l.insert(format!("{t}.{name}"));
                                }
                            }
                        }
                    }
                }
            }
        }
        let g: BTreeSet<&String> = got.db.iter().collect();
        let rr: BTreeSet<&String> = r.db.iter().collect();
        // an appointment row present on both sides that differs in nothing but the height it was accepted at
        let strip = |x: &str| x.split(' ').filter(|f| !f.starts_with("start_block=")).collect::<Vec<_>>().join(" ");
        let only_start_block = |x: &String| x.starts_with("A ") && g.iter().chain(rr.iter()).filter(|y| ***y != *x && strip(y) == strip(x)).count() == 1;
        for x in g.symmetric_difference(&rr) {
            l.insert(match x.chars().next() {
                Some('U') => "db.balances".to_string(),
                Some('A') if only_start_block(x) => "db.appointment-start-block".to_string(),
                Some('A') => "db.appointments".to_string(),
                // a tracker present on both sides with another confirmation state / only in the sequential outcome / only observed
                Some('T') if g.iter().chain(rr.iter()).any(|y| ***y != **x && y.starts_with("T ") && y.split(' ').nth(1) == x.split(' ').nth(1)) => "db.tracker-confirmation".to_string(),
                Some('T') if rr.contains(x) => "db.tracker-missing".to_string(),
                Some('T') => "db.tracker-extra".to_string(),
                _ => "db.other".to_string(),
            });
        }
        if got.rpcs != r.rpcs {
            l.insert("rpcs".into());
        }
        l
    }
    // nearest = the sequential outcome that explains most: first the fewest differences in durable state / broadcasts
    // other than "the height a request was accepted at" (the start_block column), then the fewest differences in that
    // column, then the fewest differing reply fields. A request that lands inside a block event is thereby explained by
    // the order that differs in that height only, if there is one, rather than by one that lacks a row.
    let key = |l: &BTreeSet<String>| {
        let state = l.iter().filter(|x| x.starts_with("db.") || *x == "rpcs").count();
        let sb = l.iter().filter(|x| *x == "db.appointment-start-block").count();
        (state - sb, sb, l.len())
    };
    let best = refs.iter().map(|r| (labels(got, r), r)).min_by_key(|(l, _)| key(l));
    match best {
        None => ("no reference outcome".into(), "noref".into()),
        Some((l, r)) => {
            let g: BTreeSet<&String> = got.db.iter().collect();
            let rr: BTreeSet<&String> = r.db.iter().collect();
            // signature class: durable state / broadcasts differ (never masked by a reply-level finding),
            // or only what a reply reported
            let state_labels: Vec<&String> = l.iter().filter(|x| x.starts_with("db.") || *x == "rpcs").collect();
            let class = if !state_labels.is_empty() {
                format!("state:{}", state_labels.iter().map(|x| x.as_str()).collect::<Vec<_>>().join("+"))
            } else {
                let threads: BTreeSet<&str> = l.iter().filter_map(|x| x.split('.').next()).collect();
                let kind = if l.iter().any(|x| x.ends_with(".status")) { "reply-status" } else { "reply-fields" };
                format!("{kind}:{}", threads.into_iter().collect::<Vec<_>>().join("+"))
            };
            (
                format!("Differs from the nearest sequential outcome in {l:?}. Observed replies {:?}, nearest sequential replies {:?}; rows only observed {:?}, rows only in the sequential outcome {:?}; broadcasts observed {:?} vs {:?}", got.replies, r.replies, g.difference(&rr).collect::<Vec<_>>(), rr.difference(&g).collect::<Vec<_>>(), got.rpcs, r.rpcs),
                class,
            )
        }
    }
}
