//! TowerModel: what the properties say, as data — plus the monitors that compare every observable
//! of the real tower (replies, sqlite rows, private-API answers, node RPC log) with it after every
//! step. Written from the property statements (DESIGN.md appendix A); it never calls decrypt,
//! compute_appointment_slots, UUID::new or any gatekeeper / watcher function.
//!
//! Rules are strict [S] (anything else is a violation) or tolerant [T] (a set of outcomes is
//! accepted because the statements do not pin the behaviour down; the observed one is adopted).

use crate::chain::ChainState;
use crate::events::{Ev, Verdict};
use crate::snap::Snap;
use crate::world::{BlobKind, Signer, World};
use bitcoin::consensus;
use bitcoin::hashes::{ripemd160, Hash};
use bitcoin::{BlockHash, Txid};
use std::collections::{BTreeMap, BTreeSet, VecDeque};

#[derive(Clone, Debug)]
pub struct Viol {
    pub props: Vec<&'static str>,
    pub sig: String,
    pub detail: String,
}

pub fn viol(props: &[&'static str], sig: impl Into<String>, detail: impl Into<String>) -> Viol {
    Viol { props: props.to_vec(), sig: sig.into(), detail: detail.into() }
}

#[derive(Clone, Debug, PartialEq)]
pub enum MState {
    Watched,
    Responded {
        /// height at which the chain delivered to the tower confirms the penalty
        conf: Option<u32>,
        /// height at which the node was last given (or found to have) the penalty
        last_send: u32,
        /// its confirming block was disconnected and no block has been connected since
        reorged: bool,
    },
}

#[derive(Clone, Debug)]
pub struct MAppt {
    pub ver: usize,
    pub start_block: u32,
    pub user_sig: String,
    pub state: MState,
}

#[derive(Clone, Debug)]
pub struct MUser {
    pub avail: u32,
    pub start: u32,
    pub expiry: u32,
    pub granted: u64,
    pub forfeited: u64,
}

pub type Key = (usize, usize); // (user, channel)

#[derive(Clone, Copy, Debug, PartialEq, Eq, PartialOrd, Ord)]
pub enum Out {
    Watched,
    Responded,
    Gone,
}

#[derive(Clone, Copy, Debug, PartialEq, Eq)]
pub enum OnGone {
    Refund,
    Forfeit,
}

#[derive(Clone, Debug)]
pub struct Expect {
    pub allowed: BTreeSet<Out>,
    pub on_gone: OnGone,
    pub props: Vec<&'static str>,
    pub why: String,
    /// when the outcome is Responded: the confirmation height the model derives (None = unconfirmed)
    pub conf_if_responded: Option<u32>,
    /// the version the record must hold afterwards (for Watched / Responded)
    pub ver: usize,
    pub start_block: u32,
    pub user_sig: String,
    /// the trigger evaluation found no contact with the node about the penalty (and it is not in the
    /// 100-block window): the appointment must not end up reported as responded
    pub no_node_contact: bool,
}

#[derive(Clone, Debug, Default)]
pub struct Counters {
    pub obligations: u64,
    pub discharged_responded: u64,
    pub discharged_dropped_invalid: u64,
    pub discharged_dropped_rejected: u64,
    pub tolerant_27: u64,
    pub rpcs_justified: u64,
    pub sends_seen: u64,
    pub reannounce_checked: u64,
    pub rebroadcast_windows_checked: u64,
    pub confirmed_rows_checked: u64,
    pub completions: u64,
    pub purges: u64,
    pub auth_rejections: u64,
    pub isolation_checks: u64,
    pub ledger_checks: u64,
    pub receipts_verified: u64,
    pub readbacks: u64,
    pub expiry_errors: u64,
    pub renewals: u64,
    pub blocks_connected: u64,
    pub blocks_disconnected: u64,
    pub max_reorg_depth: u64,
    pub resubmissions: BTreeMap<String, u64>,
    pub blob_kinds: BTreeMap<String, u64>,
    pub verdicts: BTreeMap<String, u64>,
}

pub struct Model {
    pub s: u32,
    pub d: u32,
    pub g: u32,
    pub h: u32,
    pub users: BTreeMap<usize, MUser>,
    pub appts: BTreeMap<Key, MAppt>,
    /// the chain as delivered to the tower (index = height)
    pub delivered: Vec<BlockHash>,
    pub cache6: VecDeque<BlockHash>,
    pub idx100: VecDeque<BlockHash>,
    /// index in the event log where the carrier's current memoisation epoch started
    pub memo_start: usize,
    pub c: Counters,
}

pub fn uuid_of(world: &World, key: Key) -> Vec<u8> {
    let mut data = world.chans[key.1].locator.clone();
    data.extend(world.users[key.0].1.serialize());
    ripemd160::Hash::hash(&data).to_byte_array().to_vec()
}

fn verdict_name(v: &Verdict) -> String {
    match v {
        Verdict::Accepted => "accepted".into(),
        Verdict::AlreadyInMempool => "already-in-mempool".into(),
        Verdict::Code(c) => format!("code{c}"),
        Verdict::Transport => "transport".into(),
        Verdict::Garbage => "garbage".into(),
    }
}

fn is_reject(v: &Verdict) -> bool {
    matches!(v, Verdict::Code(c) if *c != -27)
}

impl Model {
    pub fn new(s: u32, d: u32, g: u32, chain: &ChainState) -> Model {
        let delivered = chain.active.clone();
        let n = delivered.len();
        Model {
            s,
            d,
            g,
            h: (n - 1) as u32,
            users: BTreeMap::new(),
            appts: BTreeMap::new(),
            cache6: delivered[n.saturating_sub(6)..].iter().cloned().collect(),
            idx100: delivered[n.saturating_sub(100)..].iter().cloned().collect(),
            delivered,
            memo_start: 0,
            c: Counters::default(),
        }
    }

    /// After a (re)start the tower rebuilds both look-ups from the last 6 / 100 blocks below its
    /// last known block and forgets the carrier's memo and the reorged set.
    pub fn on_restart(&mut self, log_len: usize) {
        let n = self.delivered.len();
        self.cache6 = self.delivered[n.saturating_sub(6)..].iter().cloned().collect();
        self.idx100 = self.delivered[n.saturating_sub(100)..].iter().cloned().collect();
        self.memo_start = log_len;
        for a in self.appts.values_mut() {
            if let MState::Responded { reorged, .. } = &mut a.state {
                *reorged = false;
            }
        }
    }

    fn in_window(&self, win: &VecDeque<BlockHash>, chain: &ChainState, txid: &Txid, skip_last: bool) -> Option<u32> {
        let n = win.len();
        for (i, bh) in win.iter().enumerate() {
            if skip_last && i + 1 == n {
                break;
            }
            let sb = &chain.blocks[bh];
            if sb.block.txdata.iter().any(|t| t.compute_txid() == *txid) {
                return Some(sb.height);
            }
        }
        None
    }

    pub fn dispute_in_cache(&self, chain: &ChainState, world: &World, chan: usize) -> bool {
        self.in_window(&self.cache6, chain, &world.chans[chan].dtxid, false).is_some()
    }

    /// Outcome set of a triggered, watched appointment (C01). `w` = events of this window,
    /// `epoch` = events since the carrier's memo was last cleared.
    fn trigger_outcomes(&mut self, world: &World, chain: &ChainState, key: Key, a: &MAppt, w: &[Ev], epoch: &[Ev], in_connect: bool, out: &mut Vec<Viol>) -> (BTreeSet<Out>, Option<u32>, bool) {
        let v = &world.versions[a.ver];
        self.c.obligations += 1;
        *self.c.blob_kinds.entry(format!("{:?}", v.kind)).or_insert(0) += 1;
        let mut set = BTreeSet::new();
        let p = match &v.penalty {
            None => {
                set.insert(Out::Gone);
                self.c.discharged_dropped_invalid += 1;
                return (set, None, false);
            }
            Some(p) => p,
        };
        let ptxid = p.compute_txid();
        // already confirmed inside the tower's 100-block window (the block being connected is not
        // part of it yet: the responder indexes it after the watcher has run)
        if let Some(hc) = self.in_window(&self.idx100, chain, &ptxid, in_connect) {
            set.insert(Out::Responded);
            self.c.discharged_responded += 1;
            return (set, Some(hc), false);
        }
        if w.iter().any(|e| matches!(e, Ev::GetRaw { txid, found: Some(true), .. } if *txid == ptxid)) {
            set.insert(Out::Responded);
            self.c.discharged_responded += 1;
            return (set, None, false);
        }
        let verdict = epoch.iter().find_map(|e| match e {
            Ev::Send { txid, verdict } if *txid == ptxid && *verdict != Verdict::Transport => Some(verdict.clone()),
            _ => None,
        });
        let mut no_contact = false;
        match verdict {
            None => {
                no_contact = true;
                // if other users hold appointments on the same channel (same locator), one user's data kept the tower
                // from answering for another: an isolation failure too (C06)
                let shared = self.appts.keys().any(|k| k.1 == key.1 && k.0 != key.0);
                out.push(viol(
                    if shared { &["C01", "C06"] } else { &["C01"] },
                    "C01:penalty-not-submitted",
                    format!("appointment {key:?} (version {}) was triggered by its dispute but no sendrawtransaction/getrawtransaction for penalty {ptxid} appears before the tower finished handling the {}", a.ver, if in_connect { "block" } else { "request" }),
                ));
                set.extend([Out::Watched, Out::Responded, Out::Gone]);
            }
            Some(v) => {
                *self.c.verdicts.entry(verdict_name(&v)).or_insert(0) += 1;
                match v {
                    Verdict::Accepted | Verdict::AlreadyInMempool => {
                        set.insert(Out::Responded);
                        self.c.discharged_responded += 1;
                    }
                    Verdict::Code(-27) => {
                        // not classified by the property as taken or rejected [T]
                        set.extend([Out::Watched, Out::Responded]);
                        self.c.tolerant_27 += 1;
                    }
                    Verdict::Code(_) => {
                        set.insert(Out::Gone);
                        self.c.discharged_dropped_rejected += 1;
                    }
                    Verdict::Garbage => {
                        set.extend([Out::Watched, Out::Responded, Out::Gone]);
                    }
                    Verdict::Transport => unreachable!(),
                }
            }
        }
        (set, None, no_contact)
    }

    /// Records node contacts about penalties of responded appointments (for the re-submission
    /// cadence check) and checks that every broadcast is justified (C02).
    fn check_sends(&mut self, world: &World, w: &[Ev], justified_p: &BTreeSet<Txid>, justified_d: &BTreeSet<Txid>, h: u32, ctx: &str, out: &mut Vec<Viol>) {
        for e in w {
            match e {
                Ev::Send { txid, verdict } => {
                    self.c.sends_seen += 1;
                    if justified_p.contains(txid) || justified_d.contains(txid) {
                        self.c.rpcs_justified += 1;
                    } else {
                        let what = if world.chans.iter().any(|c| c.dtxid == *txid) {
                            "a dispute transaction"
                        } else if world.versions.iter().any(|v| v.penalty.as_ref().map(|p| p.compute_txid()) == Some(*txid)) {
                            "a penalty"
                        } else {
                            "an unknown transaction"
                        };
                        out.push(viol(&["C02"], format!("C02:unjustified-broadcast:{}", what.replace(' ', "-")), format!("{ctx}: the tower submitted {what} ({txid}, verdict {verdict:?}) that no observed breach of a held appointment justifies")));
                    }
                    if *verdict != Verdict::Transport {
                        for a in self.appts.values_mut() {
                            if let MState::Responded { last_send, .. } = &mut a.state {
                                if world.versions[a.ver].penalty.as_ref().map(|p| p.compute_txid()) == Some(*txid) {
                                    *last_send = (*last_send).max(h);
                                }
                            }
                        }
                    }
                }
                Ev::GetRaw { txid, found: Some(true), .. } => {
                    for a in self.appts.values_mut() {
                        if let MState::Responded { last_send, .. } = &mut a.state {
                            if world.versions[a.ver].penalty.as_ref().map(|p| p.compute_txid()) == Some(*txid) {
                                *last_send = (*last_send).max(h);
                            }
                        }
                    }
                }
                _ => {}
            }
        }
    }

    fn obs(&self, world: &World, snap: &Snap, key: Key) -> Out {
        let uuid = uuid_of(world, key);
        match (snap.appts.contains_key(&uuid), snap.trackers.contains_key(&uuid)) {
            (true, true) => Out::Responded,
            (true, false) => Out::Watched,
            (false, _) => Out::Gone,
        }
    }

    /// Compares the database content with the model, adopting the observed outcome where a
    /// tolerant rule allows several. Returns false if the case must stop (model and tower diverged).
    pub fn reconcile(&mut self, world: &World, snap: &Snap, mut exp: BTreeMap<Key, Expect>, default_props: &[&'static str], ctx: &str, out: &mut Vec<Viol>) -> bool {
        let before = out.len();
        if snap.fk_violations > 0 {
            out.push(viol(&["C03", "C10"], "C03:dangling-record", format!("{ctx}: PRAGMA foreign_key_check reports {} dangling rows", snap.fk_violations)));
        }
        let keys: BTreeSet<Key> = self.appts.keys().cloned().chain(exp.keys().cloned()).collect();
        let mut known_uuids = BTreeSet::new();
        for key in keys {
            let uuid = uuid_of(world, key);
            known_uuids.insert(uuid.clone());
            let observed = self.obs(world, snap, key);
            let e = exp.remove(&key);
            let cur = self.appts.get(&key);
            let (allowed, props, why): (BTreeSet<Out>, Vec<&'static str>, String) = match &e {
                Some(e) => (e.allowed.clone(), e.props.clone(), e.why.clone()),
                None => {
                    let st = match cur.map(|a| &a.state) {
                        Some(MState::Watched) => Out::Watched,
                        Some(MState::Responded { .. }) => Out::Responded,
                        None => Out::Gone,
                    };
                    (BTreeSet::from([st]), default_props.to_vec(), "not concerned by this step: must be unchanged".into())
                }
            };
            if !allowed.contains(&observed) {
                let kind = format!("{:?}->{:?}", allowed.iter().collect::<Vec<_>>(), observed).replace(' ', "");
                out.push(viol(&props, format!("{}:state:{kind}", props[0]), format!("{ctx}: appointment (user {}, channel {}) is {observed:?}, expected one of {allowed:?} ({why})", key.0, key.1)));
                continue;
            }
            if observed == Out::Responded && e.as_ref().map_or(false, |e| e.no_node_contact) {
                out.push(viol(&["C02"], "C02:responded-without-node-contact", format!("{ctx}: appointment (user {}, channel {}) is reported as dispute_responded although the node was neither given its penalty nor found to have it", key.0, key.1)));
            }
            // adopt
            match observed {
                Out::Gone => {
                    if let Some(a) = self.appts.remove(&key) {
                        let cost = world.versions[a.ver].cost();
                        if let Some(u) = self.users.get_mut(&key.0) {
                            match e.as_ref().map(|e| e.on_gone).unwrap_or(OnGone::Forfeit) {
                                OnGone::Refund => u.avail += cost,
                                OnGone::Forfeit => u.forfeited += cost as u64,
                            }
                        }
                    } else if let Some(e) = &e {
                        // accepted and dropped within the same step: the charge stays forfeited
                        if let Some(u) = self.users.get_mut(&key.0) {
                            if e.on_gone == OnGone::Forfeit {
                                u.forfeited += world.versions[e.ver].cost() as u64;
                            }
                        }
                    }
                }
                Out::Watched | Out::Responded => {
                    let (ver, start_block, user_sig) = match &e {
                        Some(e) => (e.ver, e.start_block, e.user_sig.clone()),
                        None => {
                            let a = cur.unwrap();
                            (a.ver, a.start_block, a.user_sig.clone())
                        }
                    };
                    let v = &world.versions[ver];
                    let row = &snap.appts[&uuid];
                    let mut wrong = Vec::new();
                    if row.blob != v.blob {
                        wrong.push("encrypted_blob");
                    }
                    if row.to_self_delay != v.tsd {
                        wrong.push("to_self_delay");
                    }
                    if row.locator != world.chans[key.1].locator {
                        wrong.push("locator");
                    }
                    if row.user_id != world.users[key.0].1.serialize().to_vec() {
                        wrong.push("user_id");
                    }
                    if row.user_signature != user_sig {
                        wrong.push("user_signature");
                    }
                    if row.start_block != start_block {
                        wrong.push("start_block");
                    }
                    if !wrong.is_empty() && e.is_none() {
                        // a record this step had no business with was altered
                        let mut props = default_props.to_vec();
                        props.push("C08");
                        out.push(viol(&props, format!("{}:foreign-record-altered:{}", default_props[0], wrong.join("+")), format!("{ctx}: the stored appointment of (user {}, channel {}), which this step does not concern, changed in {wrong:?}", key.0, key.1)));
                    } else if !wrong.is_empty() {
                        out.push(viol(&["C08"], format!("C08:stored-record-differs:{}", wrong.join("+")), format!("{ctx}: stored appointment (user {}, channel {}) differs from the version last accepted in {wrong:?} (stored start_block {}, expected {})", key.0, key.1, row.start_block, start_block)));
                    }
                    let prev_state = cur.map(|a| a.state.clone());
                    let state = if observed == Out::Watched {
                        MState::Watched
                    } else {
                        let t = &snap.trackers[&uuid];
                        let want_d = consensus::serialize(&world.chans[key.1].dispute);
                        let want_p = v.penalty.as_ref().map(consensus::serialize);
                        if t.dispute_tx != want_d || Some(&t.penalty_tx) != want_p.as_ref() {
                            out.push(viol(&["C01", "C02"], "C01:tracker-wrong-transactions", format!("{ctx}: tracker of (user {}, channel {}) does not hold exactly the dispute and the decrypted penalty of the accepted appointment", key.0, key.1)));
                        }
                        match (&prev_state, &e) {
                            (Some(MState::Responded { conf, last_send, reorged }), None) => MState::Responded { conf: *conf, last_send: *last_send, reorged: *reorged },
                            (Some(MState::Responded { conf, last_send, reorged }), Some(_)) => MState::Responded { conf: *conf, last_send: *last_send, reorged: *reorged },
                            (_, Some(e)) => MState::Responded { conf: e.conf_if_responded, last_send: self.h, reorged: false },
                            (_, None) => MState::Responded { conf: None, last_send: self.h, reorged: false },
                        }
                    };
                    self.appts.insert(key, MAppt { ver, start_block, user_sig, state });
                }
            }
        }
        // rows nobody in the model owns
        for (uuid, row) in &snap.appts {
            if !known_uuids.contains(uuid) {
                let owner_known = world.users.iter().any(|u| u.1.serialize().to_vec() == row.user_id);
                out.push(viol(&["C06", "C09", "C10"], "C06:unknown-record", format!("{ctx}: the database holds an appointment ({}) that no accepted request accounts for (owner known: {owner_known})", hex::encode(uuid))));
            }
        }
        for uuid in snap.trackers.keys() {
            if !snap.appts.contains_key(uuid) {
                out.push(viol(&["C03", "C10"], "C03:tracker-without-appointment", format!("{ctx}: tracker {} has no appointment", hex::encode(uuid))));
            }
        }
        // users
        for (i, u) in &self.users {
            let id = world.users[*i].1.serialize().to_vec();
            match snap.users.get(&id) {
                None => out.push(viol(&["C09"], "C09:user-missing", format!("{ctx}: user {i} is gone although height {} < expiry {} + grace {}", self.h, u.expiry, self.g))),
                Some(r) => {
                    self.c.ledger_checks += 1;
                    if r.available_slots != u.avail {
                        out.push(viol(&["C07"], "C07:balance-on-disk", format!("{ctx}: user {i} has {} available slots on disk, the ledger says {} (granted {}, forfeited {})", r.available_slots, u.avail, u.granted, u.forfeited)));
                    }
                    if r.expiry != u.expiry || r.start != u.start {
                        out.push(viol(&["C09"], "C09:subscription-on-disk", format!("{ctx}: user {i} has (start {}, expiry {}) on disk, expected ({}, {})", r.start, r.expiry, u.start, u.expiry)));
                    }
                    // conservation, from observed rows: granted = available + occupied + forfeited
                    let occupied: u64 = snap.appts.values().filter(|a| a.user_id == id).map(|a| std::cmp::max(1, (a.blob.len() as u64 + 2047) / 2048)).sum();
                    if u.granted != r.available_slots as u64 + occupied + u.forfeited {
                        out.push(viol(&["C07"], "C07:conservation", format!("{ctx}: user {i}: granted {} != available {} + occupied {} + forfeited {}", u.granted, r.available_slots, occupied, u.forfeited)));
                    }
                }
            }
        }
        for id in snap.users.keys() {
            if !self.users.iter().any(|(i, _)| world.users[*i].1.serialize().to_vec() == *id) {
                out.push(viol(&["C09"], "C09:user-not-purged", format!("{ctx}: a user record ({}) is still held at height {} although the model says it was purged / never registered", hex::encode(&id[..6]), self.h)));
            }
        }
        out.len() == before
    }

    // --------------------------------------------------------------------------------------------
    // chain events

    pub fn disconnect(&mut self, chain: &ChainState, b: BlockHash) {
        let h = chain.blocks[&b].height;
        assert_eq!(self.delivered.last(), Some(&b));
        self.delivered.pop();
        self.h = h - 1;
        if self.cache6.back() == Some(&b) {
            self.cache6.pop_back();
        }
        if self.idx100.back() == Some(&b) {
            self.idx100.pop_back();
        }
        for a in self.appts.values_mut() {
            if let MState::Responded { conf, reorged, .. } = &mut a.state {
                if *conf == Some(h) {
                    *conf = None;
                    *reorged = true;
                }
            }
        }
        self.c.blocks_disconnected += 1;
    }

    /// Model of one block connection, checked against the window's RPC log and the database
    /// content after the block. Returns false if the case must stop.
    pub fn connect(&mut self, world: &World, chain: &ChainState, b: BlockHash, w: &[Ev], epoch: &[Ev], snap: &Snap, out: &mut Vec<Viol>) -> bool {
        let sb = &chain.blocks[&b];
        let h = sb.height;
        let ctx = format!("connect block at height {h}");
        let txids: BTreeSet<Txid> = sb.block.txdata.iter().map(|t| t.compute_txid()).collect();
        self.c.blocks_connected += 1;
        let mut exp: BTreeMap<Key, Expect> = BTreeMap::new();

        // step 1 — purge: users with h >= expiry + grace disappear with everything they own
        let purged: Vec<usize> = self.users.iter().filter(|(_, u)| h as u64 >= u.expiry as u64 + self.g as u64).map(|(i, _)| *i).collect();
        for i in &purged {
            self.users.remove(i);
            self.c.purges += 1;
            let keys: Vec<Key> = self.appts.keys().filter(|k| k.0 == *i).cloned().collect();
            for k in keys {
                let a = self.appts.remove(&k).unwrap();
                exp.insert(
                    k,
                    Expect { allowed: BTreeSet::from([Out::Gone]), on_gone: OnGone::Forfeit, props: vec!["C09"], why: format!("owner purged at height {h}"), conf_if_responded: None, ver: a.ver, start_block: a.start_block, user_sig: a.user_sig, no_node_contact: false },
                );
            }
        }

        // the block enters the 6-block look-up before breaches are searched
        self.cache6.push_back(b);
        if self.cache6.len() > 6 {
            self.cache6.pop_front();
        }
        self.idx100.push_back(b);
        if self.idx100.len() > 100 {
            self.idx100.pop_front();
        }

        let mut just_p: BTreeSet<Txid> = BTreeSet::new();
        let mut just_d: BTreeSet<Txid> = BTreeSet::new();
        let reject_in_epoch = |t: &Txid| epoch.iter().any(|e| matches!(e, Ev::Send { txid, verdict } if txid == t && (is_reject(verdict) || *verdict == Verdict::Garbage)));
        let reject_rpc_in_window = |t: &Txid| w.iter().any(|e| matches!(e, Ev::Send { txid, verdict } if txid == t && is_reject(verdict)));

        let mut reannounce: Vec<(Key, Txid, Txid)> = Vec::new();
        let keys: Vec<Key> = self.appts.keys().cloned().collect();
        // how many held appointments share a penalty / dispute (for the strict rejection rule)
        let mut sharing: BTreeMap<Txid, usize> = BTreeMap::new();
        for k in &keys {
            let a = &self.appts[k];
            if let Some(p) = &world.versions[a.ver].penalty {
                *sharing.entry(p.compute_txid()).or_insert(0) += 1;
            }
            *sharing.entry(world.chans[k.1].dtxid).or_insert(0) += 1;
        }

        for k in keys {
            let a = self.appts[&k].clone();
            let v = &world.versions[a.ver];
            let dtxid = world.chans[k.1].dtxid;
            let base = Expect { allowed: BTreeSet::new(), on_gone: OnGone::Forfeit, props: vec![], why: String::new(), conf_if_responded: None, ver: a.ver, start_block: a.start_block, user_sig: a.user_sig.clone(), no_node_contact: false };
            match a.state.clone() {
                MState::Watched => {
                    if txids.contains(&dtxid) {
                        // step 2 — breach of a watched appointment
                        if let Some(p) = &v.penalty {
                            just_p.insert(p.compute_txid());
                        }
                        let (allowed, conf, no_node_contact) = self.trigger_outcomes(world, chain, k, &a, w, epoch, true, out);
                        // a penalty confirmed by this very block is recorded as such by the responder
                        let conf = conf.or_else(|| v.penalty.as_ref().and_then(|p| txids.contains(&p.compute_txid()).then_some(h)));
                        exp.insert(k, Expect { allowed, props: vec!["C01"], why: format!("dispute confirmed at height {h}; blob kind {:?}", v.kind), conf_if_responded: conf, no_node_contact, ..base });
                    }
                }
                MState::Responded { conf, last_send: _, reorged } => {
                    let p = v.penalty.as_ref().expect("responded appointments have a penalty");
                    let ptxid = p.compute_txid();
                    // a responded appointment's penalty may be sent again while it is unconfirmed (periodic re-broadcast) or
                    // after the block that confirmed it was disconnected — not when a block delivered earlier confirmed it
                    // and that block is still on the chain
                    if reorged || !matches!(conf, Some(hc) if hc < h) {
                        just_p.insert(ptxid);
                    }
                    if reorged {
                        just_d.insert(dtxid);
                    }
                    // completion: exactly when the penalty is buried 100 deep on the delivered chain
                    if let (Some(hc), false) = (conf, reorged) {
                        if h >= hc && h - hc == 100 {
                            self.c.completions += 1;
                            exp.insert(k, Expect { allowed: BTreeSet::from([Out::Gone]), on_gone: OnGone::Refund, props: vec!["C04", "C07"], why: format!("penalty confirmed at {hc}, now 100 deep at {h}: tracker completes and the slots are refunded"), ..base });
                            continue;
                        }
                    }
                    let mut allowed = BTreeSet::from([Out::Responded]);
                    let mut why = "responded appointment: stays until 100 confirmations".to_string();
                    let p_rejected = reject_in_epoch(&ptxid);
                    let d_rejected = reorged && reject_in_epoch(&dtxid);
                    if p_rejected || d_rejected {
                        let sole = sharing.get(&ptxid).copied().unwrap_or(0) == 1 && sharing.get(&dtxid).copied().unwrap_or(0) == 1;
                        let rpc_now = reject_rpc_in_window(&ptxid) || (reorged && reject_rpc_in_window(&dtxid));
                        if sole && rpc_now && conf.is_none() {
                            allowed = BTreeSet::from([Out::Gone]);
                            why = "the node rejected the re-submission in this block: dropped without refund".into();
                        } else {
                            allowed.insert(Out::Gone);
                            why = "the node rejected a (re-)submission of its penalty/dispute: may be dropped without refund".into();
                        }
                    }
                    let mut new_conf = conf;
                    let mut new_reorged = reorged;
                    if txids.contains(&ptxid) {
                        new_conf = Some(h);
                        new_reorged = false;
                    }
                    // (a) re-announcement after the confirming block was disconnected (judged after the
                    // database comparison: a tracker dropped in this very block owes nothing)
                    if reorged && !txids.contains(&ptxid) {
                        reannounce.push((k, dtxid, ptxid));
                        new_reorged = false;
                    }
                    if let Some(m) = self.appts.get_mut(&k) {
                        if let MState::Responded { conf, reorged, .. } = &mut m.state {
                            *conf = new_conf;
                            *reorged = new_reorged;
                        }
                    }
                    exp.insert(k, Expect { allowed, props: vec!["C04"], why, conf_if_responded: new_conf, ..base });
                }
            }
        }
        // C02 + bookkeeping of node contacts
        self.check_sends(world, w, &just_p, &just_d, h, &ctx, out);
        self.h = h;
        self.delivered.push(b);
        let ok = self.reconcile(world, snap, exp, &["C01"], &ctx, out);
        for (k, dtxid, ptxid) in reannounce {
            if !matches!(self.appts.get(&k).map(|a| &a.state), Some(MState::Responded { .. })) {
                continue;
            }
            self.c.reannounce_checked += 1;
            let sent_d = epoch.iter().any(|e| matches!(e, Ev::Send { txid, .. } if *txid == dtxid));
            let sent_p = epoch.iter().any(|e| matches!(e, Ev::Send { txid, .. } if *txid == ptxid));
            if !sent_d || !sent_p {
                out.push(viol(&["C04"], format!("C04:not-reannounced:{}", if !sent_d { "dispute" } else { "penalty" }), format!("{ctx}: the block that confirmed the penalty of (user {}, channel {}) was disconnected, but the {} was not re-submitted by the end of the first block connected afterwards", k.0, k.1, if !sent_d { "dispute transaction" } else { "penalty" })));
            }
        }
        // (b) periodic re-submission while unconfirmed
        for (k, a) in &self.appts {
            if let MState::Responded { conf: None, last_send, .. } = &a.state {
                self.c.rebroadcast_windows_checked += 1;
                if h >= *last_send && h - *last_send >= 12 {
                    out.push(viol(&["C04"], "C04:not-rebroadcast", format!("{ctx}: the penalty of (user {}, channel {}) is unconfirmed and was last given to the node at height {last_send}; 12 or more blocks later it has not been re-submitted", k.0, k.1)));
                }
            }
        }
        // the carrier forgets its memo at the end of every connection
        ok
    }

    /// (c) after a completed poll: every tracker recorded as confirmed points at a block of the
    /// delivered chain that contains its penalty.
    pub fn check_confirmed_rows(&mut self, world: &World, chain: &ChainState, snap: &Snap, out: &mut Vec<Viol>) {
        for (k, a) in &self.appts {
            if let MState::Responded { .. } = a.state {
                let uuid = uuid_of(world, *k);
                if let Some(t) = snap.trackers.get(&uuid) {
                    if t.confirmed {
                        self.c.confirmed_rows_checked += 1;
                        let ptxid = world.versions[a.ver].penalty.as_ref().unwrap().compute_txid();
                        let ok = (t.height as usize) < self.delivered.len() && chain.blocks[&self.delivered[t.height as usize]].block.txdata.iter().any(|x| x.compute_txid() == ptxid);
                        if !ok {
                            out.push(viol(&["C04"], "C04:confirmed-in-wrong-block", format!("after a completed chain update the penalty of (user {}, channel {}) is recorded as confirmed at height {}, but the block of the active chain at that height does not contain it (tip {})", k.0, k.1, t.height, self.h)));
                        }
                    }
                }
            }
        }
    }

    pub fn trigger_outcomes_pub(&mut self, world: &World, chain: &ChainState, key: Key, a: &MAppt, w: &[Ev], epoch: &[Ev], out: &mut Vec<Viol>) -> (BTreeSet<Out>, Option<u32>, bool) {
        self.trigger_outcomes(world, chain, key, a, w, epoch, false, out)
    }

    /// Request windows: only penalties in `just_p` may be broadcast, never a dispute.
    pub fn check_sends_pub(&mut self, world: &World, w: &[Ev], just_p: &BTreeSet<Txid>, h: u32, ctx: &str, out: &mut Vec<Viol>) {
        self.check_sends(world, w, just_p, &BTreeSet::new(), h, ctx, out)
    }

    /// Who a request acts for: the signer, provided the signature is a good one over exactly the
    /// request's message and the signer is currently registered.
    pub fn auth(&self, signer: Signer, sig_good: bool) -> Option<usize> {
        match (signer, sig_good) {
            (Signer::User(i), true) if self.users.contains_key(&i) => Some(i),
            _ => None,
        }
    }

    pub fn count_kind(&mut self, k: BlobKind) {
        *self.c.blob_kinds.entry(format!("submitted:{k:?}")).or_insert(0) += 1;
    }
}
