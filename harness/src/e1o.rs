//! C12 — a bitcoind outage never drops a response and the tower recovers by itself
//! (fault enumeration over E1 histories, tower calls on scheduler-observed worker threads).
//!
//! Fault space: for every node RPC issued in a history, an outage starting exactly at that RPC
//! (transport errors for RPCs, transient errors for the block source) that lasts k further polls,
//! optionally with the history's next chain operations (mined blocks) happening meanwhile; plus
//! failures of block-source calls in the middle of a poll. The call that hits the outage runs on a
//! worker thread whose every lock / condvar operation is seen by the scheduler observer, so "it
//! waits for the reachability signal holding these locks" is observed as a state, not guessed from
//! a timeout. Progress is judged in logical steps: polls and virtual clock ticks.

use crate::chain::{lock, SrcFault};
use crate::e1::{run_case, Case};
use crate::e1c::CrashObserver;
use crate::panics;
use crate::report::Report;
use crate::rng::fnv;
use crate::sched::Sched;
use crate::snap::Snap;
use crate::tower::{self, ApiErr};
use crate::world::{Op, World};
use serde_json::json;
use std::path::PathBuf;
use std::sync::atomic::{AtomicUsize, Ordering};
use std::sync::mpsc::{channel, Receiver, Sender};
use std::sync::{Arc, Mutex};
use std::time::{Duration, Instant};
use teos_common::verif::set_observer;
use tonic::Code;

#[derive(Clone, Debug)]
pub enum Fault {
    /// outage starting at the `rpc`-th node RPC (0-based), node down for `polls_down` further polls
    Outage { rpc: u64, polls_down: u32, with_following_chain_ops: bool },
    /// during operation `op` (a poll), block-source calls number `call`.. `call+len` (counted from
    /// the start of that poll) fail transiently
    SrcFailure { op: usize, call: u64, len: u64 },
    /// the node goes down while the tower is idle and in sync, right after operation `op` (a poll): the next poll fails;
    /// the node then comes back on the same tip (0), on an equal-work sibling of it (1) or one block short of it (2) -
    /// a tip that is not better than the tower's. The run ends after the recovery has been judged.
    IdleOutage { op: usize, back_on: u8 },
    /// right after operation `op` (a poll; tower in sync) the node reorganises `depth` blocks away (depth + 1 new ones)
    /// and the first block of the new branch cannot be downloaded: the poll disconnects and stops at the fork point,
    /// the SPV client keeps that partial progress and the tower goes on serving requests there. A user then registers
    /// and submits a fresh appointment: its receipt must carry the fork point's height (C08: "the start block is the
    /// tower's height at acceptance ... around reorgs (height going backwards)"). The run ends there.
    ReorgStall { op: usize, depth: usize },
}

/// start_block of the last receipt obtained by `Cmd::AddFresh` (-1: refused, -2: receipt does not verify)
static FRESH_START_BLOCK: std::sync::atomic::AtomicI64 = std::sync::atomic::AtomicI64::new(-1);

enum Cmd {
    Op(Op),
    Poll,
    /// the four public endpoints, answered with their status codes
    Probe,
    /// register `user` and submit an appointment nobody has sent before (random locator, 100-byte blob)
    AddFresh { user: usize, nonce: u64 },
    Exit,
}

enum Res {
    Done(Vec<Option<Code>>),
}

fn code_of<T>(r: &Result<T, ApiErr>) -> Option<Code> {
    r.as_ref().err().map(|e| e.code())
}

fn api_exec(world: &World, api: &crate::tower::Api, cmd: &Cmd) -> Vec<Option<Code>> {
    match cmd {
        Cmd::Op(op) => match op.clone() {
            Op::Register { user } => vec![code_of(&tower::register(api, world.users[user].1.serialize().to_vec()))],
            Op::RegisterBadId { len } => vec![code_of(&tower::register(api, vec![7u8; len]))],
            Op::Add { ver, sig, .. } => {
                let v = world.versions[ver].clone();
                vec![code_of(&tower::add_appointment(api, world.chans[v.chan].locator.clone(), v.blob, v.tsd, sig))]
            }
            Op::GetAppt { chan, sig, .. } => vec![code_of(&tower::get_appointment(api, world.chans[chan].locator.clone(), sig))],
            Op::GetSub { sig, .. } => vec![code_of(&tower::get_subscription_info(api, sig))],
            _ => vec![],
        },
        Cmd::AddFresh { user, nonce } => {
            FRESH_START_BLOCK.store(-1, Ordering::SeqCst);
            let reg = tower::register(api, world.users[*user].1.serialize().to_vec());
            let mut rng = crate::rng::Rng::new(0xADDF ^ *nonce);
            let locator: Vec<u8> = (0..16).map(|_| rng.below(256) as u8).collect();
            let blob: Vec<u8> = (0..100).map(|_| rng.below(256) as u8).collect();
            let mut msg = locator.clone();
            msg.extend(&blob);
            msg.extend(42u32.to_be_bytes());
            let sig = world.sign(&mut rng, crate::world::Signer::User(*user), &msg, crate::world::SigKind::Good);
            let r = tower::add_appointment(api, locator, blob, 42, sig.clone());
            if let Ok(rc) = &r {
                FRESH_START_BLOCK.store(rc.start_block as i64, Ordering::SeqCst);
            }
            vec![code_of(&reg), code_of(&r)]
        }
        Cmd::Probe => vec![
            code_of(&tower::register(api, vec![1, 2, 3]).map(|_| ())).or(Some(Code::Ok)),
            code_of(&tower::add_appointment(api, vec![0u8; 16], vec![1, 2, 3], 1, "x".into())).or(Some(Code::Ok)),
            code_of(&tower::get_appointment(api, vec![0u8; 16], "x".into())).or(Some(Code::Ok)),
            code_of(&tower::get_subscription_info(api, "x".into())).or(Some(Code::Ok)),
        ],
        _ => vec![],
    }
}

enum Wait {
    Done(Vec<Option<Code>>),
    Blocked(String),
    Watchdog,
    /// the thread never blocked although this many node RPCs failed with a transport error during the wait
    Spinning(u64),
}

/// Transport failures a single call may see before it has to be parked waiting for the node: the
/// tower's retry loop waits for the reachability flag between attempts, and the harness advances the
/// (virtual) retry clock a bounded number of times, so a correct tower stays far below this.
const SPIN_LIMIT: u64 = 400;

thread_local! {
    static SPIN_NODE: std::cell::RefCell<Option<crate::node::SimNode>> = std::cell::RefCell::new(None);
}

fn wait_for(sched: &Sched, name: &str, rx: &Receiver<Res>) -> Wait {
    let t0 = Instant::now();
    let mut blocked_seen = 0;
    // node RPCs counted while the node is down (each of them fails with a transport error)
    let down_rpcs = || SPIN_NODE.with(|n| n.borrow().as_ref().and_then(|n| if n.down.load(Ordering::SeqCst) { Some(lock(&n.state).rpc_calls) } else { None }));
    let mut base: Option<u64> = None;
    loop {
        if let Some(cur) = down_rpcs() {
            let b = *base.get_or_insert(cur);
            if cur > b + SPIN_LIMIT {
                return Wait::Spinning(cur - b);
            }
        }
        match rx.try_recv() {
            Ok(Res::Done(v)) => return Wait::Done(v),
            Err(std::sync::mpsc::TryRecvError::Disconnected) => return Wait::Blocked("worker thread died".into()),
            Err(_) => {}
        }
        match sched.blocked(name) {
            Some(desc) => {
                blocked_seen += 1;
                if blocked_seen >= 3 {
                    // one more look at the channel: the reply may have raced the state check
                    if let Ok(Res::Done(v)) = rx.try_recv() {
                        return Wait::Done(v);
                    }
                    return Wait::Blocked(desc);
                }
                std::thread::sleep(Duration::from_micros(300));
            }
            None => {
                blocked_seen = 0;
                std::thread::sleep(Duration::from_micros(100));
            }
        }
        if t0.elapsed() > Duration::from_secs(20) {
            return Wait::Watchdog;
        }
    }
}

pub struct Outcome {
    pub violation: Option<(String, String)>,
    pub inconclusive: Option<String>,
    pub hit: bool,
    pub path: String,
    pub unavailable_probes: u64,
    pub polls_during_outage: u64,
    pub ticks: u64,
}

/// Class of a blocked description with thread-instance names normalised.
fn block_class(desc: &str) -> String {
    desc.replace("api0", "api").replace("api1", "api").replace(|c: char| c == '"', "").replace(' ', "_").chars().take(160).collect()
}

pub fn run_faulted(world: &World, cfg: &tower::TowerCfg, ops: &[Op], base_snaps: &[Snap], fault: &Fault, salt: u64) -> Outcome {
    let _ = std::fs::remove_file(&cfg.db_path);
    let sched = Sched::new(1, false, 0, 1, 0);
    sched.state(|st| st.no_auto_stuck = true);
    set_observer(Some(sched.clone()));
    let chain = world.simchain();
    let node = world.node.clone();
    let (chain_tx, chain_rx) = channel::<Cmd>();
    let (api0_tx, api0_rx) = channel::<Cmd>();
    let (api1_tx, api1_rx) = channel::<Cmd>();
    let (chain_res_tx, chain_res) = channel::<Res>();
    let (api0_res_tx, api0_res) = channel::<Res>();
    let (api1_res_tx, api1_res) = channel::<Res>();
    let (ready_tx, ready_rx) = channel::<Result<(), String>>();
    let mut out = Outcome { violation: None, inconclusive: None, hit: false, path: String::new(), unavailable_probes: 0, polls_during_outage: 0, ticks: 0 };
    SPIN_NODE.with(|n| *n.borrow_mut() = Some(world.node.clone()));
    let reach_slot: Arc<Mutex<Option<tower::Reachable>>> = Arc::new(Mutex::new(None));
    let reach_slot2 = reach_slot.clone();
    // A node RPC that fails while the node is down and is not the first failure *seen by that thread* in this
    // outage is a retry by a caller that has itself flagged the node unreachable before waiting: the flag the
    // public API consults must (still) say 'unreachable' at that moment — nothing has answered since.
    // (Per thread: another thread's first failure may race with this thread's flagging.)
    let raised: Arc<Mutex<Option<String>>> = Arc::new(Mutex::new(None));
    {
        let reach = reach_slot.clone();
        let raised = raised.clone();
        let down = world.node.down.clone();
        let failures: Mutex<std::collections::HashMap<std::thread::ThreadId, u64>> = Mutex::new(Default::default());
        *lock(&world.node.on_failed_rpc) = Some(Arc::new(move |method: &str| {
            if !down.load(Ordering::SeqCst) {
                return;
            }
            let n = {
                let mut f = lock(&failures);
                let e = f.entry(std::thread::current().id()).or_insert(0);
                *e += 1;
                *e - 1
            };
            if n == 0 {
                return;
            }
            // read the flag first and only then make sure the outage is still on: `down` goes back to false exactly
            // once (when the harness ends the outage, before it lets anything succeed), so a raised flag read while
            // `down` is still true afterwards was raised during the outage
            let flag = lock(&reach).as_ref().map(|r| *r.0.lock().unwrap_or_else(|e| e.into_inner()));
            if !down.load(Ordering::SeqCst) {
                return;
            }
            if flag == Some(true) {
                let mut r = lock(&raised);
                if r.is_none() {
                    *r = Some(format!("retry #{n} of {method} by the same caller during the outage found the reachability flag raised although nothing had answered since the outage began: the public API takes on new work in that window"));
                }
            }
        }));
    }

    std::thread::scope(|scope| {
        let sched2 = sched.clone();
        let tower_thread = scope.spawn(move || {
            let sched = sched2;
            let r = std::panic::catch_unwind(std::panic::AssertUnwindSafe(|| {
                tower::run_session(&chain, &node, cfg, |s| {
                    let chain_tid = sched.add_thread("chain", "chain");
                    let t0 = sched.add_thread("api0", "api");
                    let t1 = sched.add_thread("api1", "api");
                    std::thread::scope(|inner| {
                        for (tid, rx, tx) in [(t0, api0_rx, api0_res_tx), (t1, api1_rx, api1_res_tx)] {
                            let api = s.api.clone();
                            let sched = sched.clone();
                            inner.spawn(move || {
                                sched.attach(tid);
                                sched.thread_start();
                                sched.set_idle(true);
                                while let Ok(cmd) = rx.recv() {
                                    if let Cmd::Exit = cmd {
                                        break;
                                    }
                                    sched.set_idle(false);
                                    let r = std::panic::catch_unwind(std::panic::AssertUnwindSafe(|| api_exec(world, &api, &cmd)));
                                    sched.set_idle(true);
                                    match r {
                                        Ok(v) => {
                                            let _ = tx.send(Res::Done(v));
                                        }
                                        Err(_) => break,
                                    }
                                }
                                sched.thread_finish();
                            });
                        }
                        sched.attach(chain_tid);
                        sched.thread_start();
                        sched.set_idle(true);
                        *lock(&reach_slot2) = Some(s.reachable.clone());
                        let _ = ready_tx.send(Ok(()));
                        while let Ok(cmd) = chain_rx.recv() {
                            match cmd {
                                Cmd::Poll => {
                                    sched.set_idle(false);
                                    s.poller.poll();
                                    sched.set_idle(true);
                                    let _ = chain_res_tx.send(Res::Done(vec![]));
                                }
                                _ => break,
                            }
                        }
                        sched.thread_finish();
                    });
                })
            }));
            match r {
                Ok(Ok(())) => {}
                Ok(Err(e)) => {
                    let _ = ready_tx.send(Err(format!("{e:?}")));
                }
                Err(_) => {
                    let _ = ready_tx.send(Err("panic in the tower thread".into()));
                }
            }
        });

        // ---------------- orchestrator
        let finish = || {
            sched.abort();
            let _ = chain_tx.send(Cmd::Exit);
            let _ = api0_tx.send(Cmd::Exit);
            let _ = api1_tx.send(Cmd::Exit);
        };
        match ready_rx.recv_timeout(Duration::from_secs(20)) {
            Ok(Ok(())) => {}
            Ok(Err(e)) => {
                out.inconclusive = Some(format!("bootstrap failed: {e}"));
                finish();
                return;
            }
            Err(_) => {
                out.inconclusive = Some("bootstrap watchdog".into());
                finish();
                return;
            }
        }
        if let Fault::Outage { rpc, .. } = fault {
            lock(&world.node.state).outage = Some((*rpc, u64::MAX));
        }
        let mut compare_on = true; // compare with the uninterrupted run after every operation
        let mut i = 0usize;
        let is_down = || world.node.down.load(Ordering::SeqCst);
        macro_rules! fail {
            ($sig:expr, $detail:expr) => {{
                out.violation = Some(($sig, $detail));
                finish();
                return;
            }};
        }
        macro_rules! inconclusive {
            ($why:expr) => {{
                out.inconclusive = Some($why);
                finish();
                return;
            }};
        }
        macro_rules! spinning {
            ($n:expr, $whr:expr) => {{
                // the flag the public API consults
                let flagged_up = lock(&reach_slot).as_ref().map(|r| *r.0.lock().unwrap_or_else(|e| e.into_inner())).unwrap_or(true);
                world.node.down.store(false, Ordering::SeqCst);
                let sig = if flagged_up { "C12:outage-noticed-but-not-flagged" } else { "C12:busy-retry-during-outage" };
                fail!(sig.to_string(), format!("{}: {} node RPCs failed with a transport error without the calling thread ever waiting for the node to come back; reachability flag = {} (the public API keeps taking on work while it is true)", $whr, $n, flagged_up));
            }};
        }
        while i < ops.len() {
            let op = ops[i].clone();
            // ---- scripted block-source failure inside this poll
            let mut src_fault_here = false;
            if let Fault::SrcFailure { op: fop, call, len } = fault {
                if *fop == i && matches!(op, Op::Poll) {
                    let mut cs = lock(&world.chain);
                    let base = cs.src_calls;
                    cs.src_fault = Some((base + call, base + call + len, SrcFault::Transient));
                    src_fault_here = true;
                }
            }
            let (worker, wtx, wrx): (&str, &Sender<Cmd>, &Receiver<Res>) = match &op {
                Op::Poll => ("chain", &chain_tx, &chain_res),
                Op::Register { .. } | Op::RegisterBadId { .. } | Op::Add { .. } | Op::GetAppt { .. } | Op::GetSub { .. } => ("api0", &api0_tx, &api0_res),
                Op::Mine { blocks } => {
                    world.mine(blocks, salt);
                    i += 1;
                    continue;
                }
                Op::Reorg { depth, blocks } => {
                    world.reorg(*depth, blocks, salt);
                    i += 1;
                    continue;
                }
                Op::Script { tx, script } => {
                    let txid = world.resolve(tx, salt).compute_txid();
                    world.set_script(txid, *script);
                    i += 1;
                    continue;
                }
                Op::TxIndex { on } => {
                    lock(&world.node.state).txindex = *on;
                    i += 1;
                    continue;
                }
                Op::Restart => {
                    i += 1;
                    continue;
                }
            };
            let _ = wtx.send(if worker == "chain" { Cmd::Poll } else { Cmd::Op(op.clone()) });
            match wait_for(&sched, worker, wrx) {
                Wait::Watchdog => inconclusive!(format!("watchdog while executing operation #{i}")),
                Wait::Spinning(n) => spinning!(n, format!("while executing operation #{i}")),
                Wait::Done(_) => {
                    if is_down() {
                        // the outage began during this call but the call returned: the interrupted RPC was given up
                        fail!("C12:submission-dropped".to_string(), format!("operation #{i} {:?} returned although the node RPC it issued failed with a transport error and the node is still down: the request to the node was dropped instead of retried", short(&op)));
                    }
                    if src_fault_here {
                        out.hit = true;
                        out.path = "block download".into();
                        lock(&world.chain).src_fault = None;
                        // the tower may have flagged the node unreachable; it must recover by polling
                        let mut recovered = false;
                        for _ in 0..2 {
                            let _ = chain_tx.send(Cmd::Poll);
                            let mut returned = false;
                            let mut last = String::new();
                            for _ in 0..4 {
                                match wait_for(&sched, "chain", &chain_res) {
                                    Wait::Done(_) => {
                                        returned = true;
                                        break;
                                    }
                                    Wait::Blocked(d) => {
                                        last = d;
                                        sched.advance_time();
                                        out.ticks += 1;
                                    }
                                    Wait::Watchdog => inconclusive!("watchdog in a recovery poll".to_string()),
                                    Wait::Spinning(n) => spinning!(n, "in a recovery poll".to_string()),
                                }
                            }
                            if !returned {
                                fail!(format!("C12:poll-does-not-return:{}", block_class(&last)), format!("after a failed block download in operation #{i}, the next poll does not return (3 clock ticks later): {last}"));
                            }
                            let _ = api1_tx.send(Cmd::Probe);
                            if let Wait::Done(codes) = wait_for(&sched, "api1", &api1_res) {
                                if codes.iter().all(|c| *c != Some(Code::Unavailable)) {
                                    recovered = true;
                                    break;
                                }
                            }
                        }
                        if !recovered {
                            fail!("C12:not-recovered:after-download-failure".to_string(), format!("two successful polls after a failed block download in operation #{i} the public API still answers 'unavailable'"));
                        }
                    }
                }
                Wait::Blocked(desc) => {
                    if !is_down() {
                        fail!(format!("C12:blocked-without-outage:{}", block_class(&desc)), format!("operation #{i} {:?} does not return although the node is up: {desc}", short(&op)));
                    }
                    // ================= the outage protocol
                    out.hit = true;
                    out.path = if worker == "chain" { "block processing".into() } else { "request".into() };
                    let (polls_down, with_chain_ops) = match fault {
                        Fault::Outage { polls_down, with_following_chain_ops, .. } => (*polls_down, *with_following_chain_ops),
                        _ => (0, false),
                    };
                    // (2) from the moment the tower has noticed, the public API answers 'unavailable'
                    let _ = api1_tx.send(Cmd::Probe);
                    match wait_for(&sched, "api1", &api1_res) {
                        Wait::Done(codes) => {
                            if codes.iter().any(|c| *c != Some(Code::Unavailable)) {
                                fail!("C12:accepts-work-during-outage".to_string(), format!("the tower has noticed the outage (a call is waiting for the node) but the public endpoints answered {codes:?} instead of 'unavailable'"));
                            }
                            out.unavailable_probes += 4;
                        }
                        Wait::Blocked(d) => fail!(format!("C12:api-hangs-during-outage:{}", block_class(&d)), format!("a public request hangs during the outage: {d}")),
                        Wait::Watchdog => inconclusive!("watchdog in a probe".to_string()),
                        Wait::Spinning(n) => spinning!(n, "in a probe".to_string()),
                    }
                    // the node stays down for `polls_down` further polls
                    for _ in 0..polls_down {
                        if worker != "chain" {
                            let _ = chain_tx.send(Cmd::Poll);
                            match wait_for(&sched, "chain", &chain_res) {
                                Wait::Done(_) => out.polls_during_outage += 1,
                                Wait::Blocked(d) => fail!(format!("C12:poll-does-not-return:{}", block_class(&d)), format!("a poll issued while the node is down does not return: {d}")),
                                Wait::Watchdog => inconclusive!("watchdog in a poll during the outage".to_string()),
                                Wait::Spinning(n) => spinning!(n, "in a poll during the outage".to_string()),
                            }
                        }
                        sched.advance_time();
                        out.ticks += 1;
                    }
                    // blocks mined meanwhile: the history's own next chain operations
                    let mut j = i + 1;
                    if with_chain_ops {
                        // only blocks whose content does not depend on what the tower itself had broadcast by then in
                        // the uninterrupted run (a penalty mined here would have come from the node's mempool)
                        let independent = |blocks: &Vec<Vec<crate::world::TxRef>>| blocks.iter().flatten().all(|t| !matches!(t, crate::world::TxRef::Penalty(_)));
                        while j < ops.len() {
                            match &ops[j] {
                                Op::Mine { blocks } if independent(blocks) => world.mine(blocks, salt),
                                Op::Reorg { depth, blocks } if independent(blocks) && *depth == 0 => world.reorg(*depth, blocks, salt),
                                // (scripted node verdicts are not moved: they would apply to calls that preceded them)
                                _ => break,
                            }
                            j += 1;
                        }
                    }
                    // the node comes back
                    world.node.down.store(false, Ordering::SeqCst);
                    // (1)(3)(4) bounded progress: at most 2 polls and 3 clock ticks
                    let mut done = false;
                    let mut last_block = desc.clone();
                    for round in 0..3 {
                        if worker != "chain" {
                            let _ = chain_tx.send(Cmd::Poll);
                            let mut poll_done = false;
                            for _ in 0..3 {
                                match wait_for(&sched, "chain", &chain_res) {
                                    Wait::Done(_) => {
                                        poll_done = true;
                                        break;
                                    }
                                    Wait::Blocked(d) => {
                                        last_block = d;
                                        sched.advance_time();
                                        out.ticks += 1;
                                    }
                                    Wait::Watchdog => inconclusive!("watchdog in a recovery poll".to_string()),
                                    Wait::Spinning(n) => spinning!(n, "in a recovery poll".to_string()),
                                }
                            }
                            if !poll_done {
                                fail!(format!("C12:not-recovered:{}", block_class(&last_block)), format!("the node is reachable again, but the poll that should bring the tower back does not return after 3 clock ticks (outage hit {} in operation #{i} {:?}): {last_block}", out.path, short(&op)));
                            }
                        }
                        match wait_for(&sched, worker, wrx) {
                            Wait::Done(_) => {
                                done = true;
                                break;
                            }
                            Wait::Blocked(d) => {
                                last_block = d;
                                sched.advance_time();
                                out.ticks += 1;
                                if let Wait::Done(_) = wait_for(&sched, worker, wrx) {
                                    done = true;
                                    break;
                                }
                            }
                            Wait::Watchdog => inconclusive!("watchdog while waiting for the interrupted call".to_string()),
                            Wait::Spinning(n) => spinning!(n, "while waiting for the interrupted call".to_string()),
                        }
                        let _ = round;
                    }
                    if !done {
                        fail!(format!("C12:not-recovered:{}", block_class(&last_block)), format!("the node has been reachable again for 2 polls and 3 clock ticks, but operation #{i} {:?} (outage hit {}) still does not return: {last_block}", short(&op), out.path));
                    }
                    // the flag must come back within one more poll
                    let mut available = false;
                    for _ in 0..2 {
                        let _ = api1_tx.send(Cmd::Probe);
                        if let Wait::Done(codes) = wait_for(&sched, "api1", &api1_res) {
                            if codes.iter().all(|c| *c != Some(Code::Unavailable)) {
                                available = true;
                                break;
                            }
                        }
                        let _ = chain_tx.send(Cmd::Poll);
                        match wait_for(&sched, "chain", &chain_res) {
                            Wait::Done(_) => {}
                            Wait::Blocked(d) => fail!(format!("C12:poll-does-not-return:{}", block_class(&d)), format!("after the recovery a poll does not return: {d}")),
                            Wait::Watchdog => inconclusive!("watchdog".to_string()),
                            Wait::Spinning(n) => spinning!(n, "".to_string()),
                        }
                    }
                    if !available {
                        fail!("C12:not-recovered:still-unavailable".to_string(), "the interrupted call has completed and two polls have succeeded, yet the public API still answers 'unavailable'".to_string());
                    }
                    // the recovery polls may have delivered blocks earlier than the history's own next poll:
                    // compare again once that poll has run
                    compare_on = false;
                    i = j - 1; // chain ops executed during the outage are done
                }
            }
            if let Fault::ReorgStall { op: fop, depth } = fault {
                if *fop == i && matches!(ops[i], Op::Poll) {
                    out.hit = true;
                    out.path = "reorg stalled at the fork point".into();
                    let blocks: Vec<Vec<crate::world::TxRef>> = (0..depth + 1).map(|k| vec![crate::world::TxRef::Filler(0xBEEF_0000 + (i as u64) * 64 + k as u64)]).collect();
                    let old_tip_height = lock(&world.chain).active.len() - 1;
                    if old_tip_height <= *depth + 1 {
                        inconclusive!("chain too short for the reorg".to_string());
                    }
                    world.reorg(*depth, &blocks, salt);
                    let fork_height = old_tip_height - depth;
                    {
                        let mut cs = lock(&world.chain);
                        let first_new = cs.active[fork_height + 1];
                        cs.undownloadable.insert(first_new, SrcFault::Transient);
                    }
                    let _ = chain_tx.send(Cmd::Poll);
                    match wait_for(&sched, "chain", &chain_res) {
                        Wait::Done(_) => {}
                        Wait::Blocked(d) => fail!(format!("C12:poll-does-not-return:{}", block_class(&d)), format!("a poll whose first new block cannot be downloaded does not return: {d}")),
                        Wait::Watchdog => inconclusive!("watchdog in the stalled poll".to_string()),
                        Wait::Spinning(n) => spinning!(n, "in the stalled poll".to_string()),
                    }
                    let user = i % world.users.len();
                    let _ = api0_tx.send(Cmd::AddFresh { user, nonce: (i as u64) << 8 | *depth as u64 });
                    match wait_for(&sched, "api0", &api0_res) {
                        Wait::Done(codes) => {
                            let sb = FRESH_START_BLOCK.load(Ordering::SeqCst);
                            if codes.iter().any(|c| *c == Some(Code::Unavailable)) {
                                // the tower took the failed download for a lost connection: nothing to judge here
                                out.hit = false;
                            } else if sb >= 0 && sb != fork_height as i64 {
                                lock(&world.chain).undownloadable.clear();
                                fail!("C08:start-block-after-disconnections".to_string(), format!("a reorg of {depth} blocks stopped at the fork point (height {fork_height}; the first block of the new branch could not be downloaded); an appointment accepted there got a receipt with start_block {sb}: not the tower's height at acceptance (the tip before the reorg was {old_tip_height})"));
                            } else if sb < 0 {
                                out.hit = false;
                            }
                        }
                        Wait::Blocked(d) => fail!(format!("C12:blocked-without-outage:{}", block_class(&d)), format!("a request after a stalled reorg poll does not return: {d}")),
                        Wait::Watchdog => inconclusive!("watchdog in the request after the stalled poll".to_string()),
                        Wait::Spinning(n) => spinning!(n, "in the request after the stalled poll".to_string()),
                    }
                    lock(&world.chain).undownloadable.clear();
                    // the chain is not the history's any more: nothing further to compare
                    finish();
                    return;
                }
            }
            if let Fault::IdleOutage { op: fop, back_on } = fault {
                if *fop == i && matches!(ops[i], Op::Poll) {
                    out.hit = true;
                    out.path = "idle".into();
                    world.node.down.store(true, Ordering::SeqCst);
                    let _ = chain_tx.send(Cmd::Poll);
                    match wait_for(&sched, "chain", &chain_res) {
                        Wait::Done(_) => out.polls_during_outage += 1,
                        Wait::Blocked(d) => {
                            world.node.down.store(false, Ordering::SeqCst);
                            fail!(format!("C12:poll-does-not-return:{}", block_class(&d)), format!("a poll issued while the node is down (tower idle, in sync) does not return: {d}"));
                        }
                        Wait::Watchdog => inconclusive!("watchdog in a poll during an idle outage".to_string()),
                        Wait::Spinning(n) => spinning!(n, "in a poll during an idle outage".to_string()),
                    }
                    // the tower has noticed (its poll failed): the public API must say so
                    let _ = api1_tx.send(Cmd::Probe);
                    match wait_for(&sched, "api1", &api1_res) {
                        Wait::Done(codes) => {
                            if codes.iter().any(|c| *c != Some(Code::Unavailable)) {
                                world.node.down.store(false, Ordering::SeqCst);
                                fail!("C12:accepts-work-during-outage".to_string(), format!("a poll has failed because the node is down, but the public endpoints answered {codes:?} instead of 'unavailable'"));
                            }
                            out.unavailable_probes += 4;
                        }
                        Wait::Blocked(d) => {
                            world.node.down.store(false, Ordering::SeqCst);
                            fail!(format!("C12:api-hangs-during-outage:{}", block_class(&d)), format!("a public request hangs during the outage: {d}"));
                        }
                        Wait::Watchdog => inconclusive!("watchdog in a probe".to_string()),
                        Wait::Spinning(n) => spinning!(n, "in a probe".to_string()),
                    }
                    let back = match back_on {
                        1 => {
                            world.reorg_any(1, &[vec![crate::world::TxRef::Filler(0xF00D + i as u64)]], salt);
                            "on an equal-work sibling of the tower's tip"
                        }
                        2 => {
                            world.reorg_any(1, &[], salt);
                            "one block short of the tower's tip"
                        }
                        _ => "on the same tip",
                    };
                    world.node.down.store(false, Ordering::SeqCst);
                    let mut available = false;
                    for _ in 0..2 {
                        let _ = chain_tx.send(Cmd::Poll);
                        match wait_for(&sched, "chain", &chain_res) {
                            Wait::Done(_) => {}
                            Wait::Blocked(d) => fail!(format!("C12:poll-does-not-return:{}", block_class(&d)), format!("the node is back {back}; the poll does not return: {d}")),
                            Wait::Watchdog => inconclusive!("watchdog in a recovery poll".to_string()),
                            Wait::Spinning(n) => spinning!(n, "in a recovery poll".to_string()),
                        }
                        let _ = api1_tx.send(Cmd::Probe);
                        if let Wait::Done(codes) = wait_for(&sched, "api1", &api1_res) {
                            if codes.iter().all(|c| *c != Some(Code::Unavailable)) {
                                available = true;
                                break;
                            }
                        }
                    }
                    if !available {
                        fail!("C12:not-recovered:still-unavailable".to_string(), format!("the node went down while the tower was idle (one poll failed) and came back {back}; two successful polls later the public API still answers 'unavailable'"));
                    }
                    // the chain is not the history's any more: nothing further to compare
                    finish();
                    return;
                }
            }
            if matches!(ops[i], Op::Poll) && !compare_on && !is_down() {
                compare_on = true;
            }
            if compare_on && out.hit {
                let got = match Snap::read(&cfg.db_path) {
                    Ok(g) => g,
                    Err(e) => inconclusive!(format!("database unreadable: {e}")),
                };
                if let Some((sig, detail)) = crate::e1c::compare_pub(&base_snaps[i], &got, &format!("after operation #{i} {:?}", short(&ops[i]))) {
                    fail!(sig.replace("C03:", "C12:after-outage:"), format!("{detail} (outage hit {})", out.path));
                }
            }
            i += 1;
        }
        finish();
        let _ = tower_thread;
    });
    set_observer(None);
    *lock(&world.node.on_failed_rpc) = None;
    let _ = std::fs::remove_file(&cfg.db_path);
    if let Some(why) = lock(&raised).take() {
        // takes precedence: whatever else went wrong follows from a tower that believes the node is back
        out.violation = Some(("C12:flag-raised-during-outage".into(), why));
    }
    // panics of tower code during the faulted run
    let recs = panics::take();
    if out.violation.is_none() {
        if let Some(r) = recs.iter().find(|r| !r.message.contains("PoisonError")) {
            out.violation = Some((format!("C12:panic:fn={}", r.function), format!("tower code panicked during/after the outage at {}: {}", r.location, r.message)));
        }
    }
    out
}

fn short(op: &Op) -> String {
    let s = format!("{op:?}");
    s.split([' ', '{']).next().unwrap_or("?").to_string()
}

/// Verdicts of the outage engine that say "the tower is wedged" (as opposed to "the outage was handled wrongly"):
/// they are reported under C11 as well when the engine runs on its behalf.
fn wedge_signature(sig: &str) -> bool {
    ["C12:poll-does-not-return", "C12:not-recovered:", "C12:api-hangs-during-outage", "C12:blocked-without-outage", "C12:panic"].iter().any(|p| sig.starts_with(p)) && sig != "C12:not-recovered:still-unavailable"
}

pub fn run(seed: u64, shard: u64, nshards: u64, cases: u64, max_faults_per_case: usize, only: Option<(u64, Fault)>, prop: &str, rep: &mut Report) {
    panics::install();
    let dir = PathBuf::from(format!("/dev/shm/tv-e1o-{}", std::process::id()));
    std::fs::create_dir_all(&dir).unwrap();
    let ids: Vec<u64> = match &only {
        Some((c, _)) => vec![*c],
        None => (0..cases).map(|i| 7_000_000 + shard + i * nshards).collect(),
    };
    for id in ids {
        let mut case = Case::new(seed, id, "outage", &dir);
        case.probe = false;
        case.record_snaps = true;
        let pristine = case.world.fork();
        // count RPCs / block-source calls per operation in the uninterrupted run
        let obs = Arc::new(CrashObserver { count: AtomicUsize::new(0), crash_at: AtomicUsize::new(0), names: Mutex::new(vec![]), record: true });
        set_observer(Some(obs.clone()));
        run_case(&mut case);
        set_observer(None);
        let r = rep.p(prop);
        if !case.viols.is_empty() || case.tolerated_divergence || case.snaps.len() != case.ops.len() {
            r.count("histories_skipped_as_reference", 1);
            continue;
        }
        let names = obs.names.lock().unwrap().clone();
        let n_rpcs = names.iter().filter(|n| n.starts_with("rpc.")).count() as u64;
        r.count("histories", 1);
        r.count("node_rpcs_in_histories", n_rpcs);
        let world0 = pristine;
        let mut w = world0;
        w.versions = case.world.versions.clone();
        for v in &w.versions {
            if let Some(p) = &v.penalty {
                lock(&w.node.state).parent.insert(p.compute_txid(), w.chans[v.chan].dtxid);
            }
        }
        let world0 = w;
        let cfg = tower::TowerCfg { db_path: dir.join(format!("outage-{id}.sqlite")), ..case.cfg.clone() };
        let mut faults: Vec<Fault> = Vec::new();
        match &only {
            Some((_, f)) => faults.push(f.clone()),
            None => {
                for rpc in 0..n_rpcs {
                    for (k, chain_ops) in [(0u32, false), (1, false), (2, true), (1, true)] {
                        faults.push(Fault::Outage { rpc, polls_down: k, with_following_chain_ops: chain_ops });
                    }
                }
                // block-source failures in the middle of multi-block polls
                let mut per_op: std::collections::BTreeMap<usize, u64> = std::collections::BTreeMap::new();
                for n in &names {
                    if let Some((what, op)) = n.split_once('@') {
                        if what.starts_with("src.") && op != "boot" {
                            *per_op.entry(op.parse().unwrap()).or_insert(0) += 1;
                        }
                    }
                }
                for (op, calls) in per_op {
                    if calls >= 4 {
                        for c in [1u64, calls / 2, calls - 1] {
                            faults.push(Fault::SrcFailure { op, call: c, len: 1 + (c % 3) });
                        }
                    }
                }
                if faults.len() > max_faults_per_case {
                    let step = faults.len() as f64 / max_faults_per_case as f64;
                    let mut sel = Vec::new();
                    let mut k = 0.0;
                    while (k as usize) < faults.len() {
                        sel.push(faults[k as usize].clone());
                        k += step;
                    }
                    faults = sel;
                }
                // idle outages after up to three of the history's polls, the node coming back on a tip that is
                // the same / an equal-work sibling / shorter
                let polls: Vec<usize> = case.ops.iter().enumerate().filter(|(_, o)| matches!(o, Op::Poll)).map(|(k, _)| k).collect();
                if !polls.is_empty() {
                    // reorgs that stop at the fork point, shallower and deeper than the Watcher's six-block cache
                    for (n, depth) in [(polls.len() / 2, 8usize), (polls.len() - 1, 7), (polls.len() / 3, 2), (2 * polls.len() / 3, 12), (0, 1)] {
                        faults.push(Fault::ReorgStall { op: polls[n.min(polls.len() - 1)], depth });
                    }
                    for (n, back_on) in [(polls.len() / 2, 1u8), (polls.len() - 1, 2), (0, 0), (polls.len() / 3, 2), (2 * polls.len() / 3, 1)] {
                        faults.push(Fault::IdleOutage { op: polls[n.min(polls.len() - 1)], back_on });
                    }
                }
            }
        }
        if prop == "C08" {
            faults.retain(|f| matches!(f, Fault::ReorgStall { .. }));
        }
        for f in faults {
            let world = world0.fork();
            let o = run_faulted(&world, &cfg, &case.ops, &case.snaps, &f, case.salt);
            let r = rep.p(prop);
            r.eval();
            if let Some(why) = &o.inconclusive {
                r.inconclusive += 1;
                r.note(format!("history {id} fault {f:?}: {why}"));
                if why.contains("watchdog") {
                    r.count("watchdog_expiries", 1);
                    if r.counters["watchdog_expiries"] >= 10 && only.is_none() {
                        r.note(format!("history {id}: the remaining faults were skipped after 10 watchdog expiries (20 s each) in this shard"));
                        break;
                    }
                }
                continue;
            }
            if o.hit {
                r.nontrivial(fnv(format!("{id}:{f:?}").as_bytes()));
                r.count(&format!("outage_on_path[{}]", o.path), 1);
                r.count("unavailable_answers_checked", o.unavailable_probes);
                r.count("polls_during_outage", o.polls_during_outage);
                r.count("clock_ticks", o.ticks);
            } else {
                r.count("faults_not_reached", 1);
            }
            // a tower wedged by a change keeps every remaining fault waiting for watchdogs: the run has failed already
            let worst = r.counters.iter().filter(|(k, _)| k.starts_with("violations[")).map(|(_, v)| *v).max().unwrap_or(0);
            if worst >= 12 && only.is_none() {
                r.note(format!("history {id}: the remaining faults were skipped after {worst} violations with one signature"));
                break;
            }
            if let Some((sig, detail)) = o.violation {
                let sig = if sig.starts_with("C08:") {
                    // the receipt oracle of the stalled-reorg faults is C08's business only
                    if prop != "C08" {
                        continue;
                    }
                    sig
                } else if prop == "C12" {
                    sig
                } else if wedge_signature(&sig) {
                    sig.replacen("C12:", &format!("{prop}:outage:"), 1)
                } else {
                    // handling the outage wrongly without wedging the tower is C12's business
                    continue;
                };
                let replay = json!({"engine":"e1o","seed":seed,"case":id,"fault": match &f {
                    Fault::Outage{rpc,polls_down,with_following_chain_ops} => json!({"outage":[rpc,polls_down,with_following_chain_ops]}),
                    Fault::SrcFailure{op,call,len} => json!({"src_failure":[op,call,len]}),
                    Fault::IdleOutage{op,back_on} => json!({"idle_outage":[op,back_on]}),
                    Fault::ReorgStall{op,depth} => json!({"reorg_stall":[op,depth]}) },
                    "ops": case.ops.iter().map(|o| o.to_json()).collect::<Vec<_>>()});
                r.violation(sig, format!("history {id}, fault {f:?}: {detail}"), replay);
            }
            r.sample(|| json!({"history": id, "fault": format!("{f:?}"), "path": o.path, "steps": case.ops.len()}));
        }
    }
    std::fs::remove_dir_all(&dir).ok();
}
