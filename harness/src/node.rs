//! SimNode: the tower's bitcoind as seen through `sendrawtransaction` / `getrawtransaction`,
//! served in-process through a `jsonrpc::Transport` behind the real `bitcoincore_rpc::Client`.

use crate::chain::{lock, ChainState};
use crate::events::{boundary, Ev, EventLog, Verdict};
use bitcoin::consensus;
use bitcoin::{Transaction, Txid};
use bitcoincore_rpc::jsonrpc;
use serde_json::{json, Value};
use std::collections::{HashMap, HashSet};
use std::str::FromStr;
use std::sync::{Arc, Mutex};

/// What the node is scripted to answer to `sendrawtransaction` for one txid.
#[derive(Clone, Debug, PartialEq, Eq)]
pub enum Script {
    Accept,
    Code(i32),
    /// a reply that is not a valid JSON-RPC envelope for this call
    Garbage,
}

#[derive(Default)]
pub struct NodeState {
    pub mempool: HashMap<Txid, Transaction>,
    /// transactions that can never be valid on the current chain (conflicting spend confirmed)
    pub conflicted: HashSet<Txid>,
    /// scripted verdicts, by txid (take precedence over the default behaviour)
    pub overrides: HashMap<Txid, Script>,
    /// child -> parent (a child is only acceptable if its parent is confirmed or in the mempool)
    pub parent: HashMap<Txid, Txid>,
    pub txindex: bool,
    /// number of RPCs served so far
    pub rpc_calls: u64,
    /// transport failure window: RPC indexes in [from, until) fail with a transport error
    pub outage: Option<(u64, u64)>,
    /// while true every RPC fails with a transport error
    pub down: bool,
}

#[derive(Clone)]
pub struct SimNode {
    /// the node process is down: RPCs and block-source calls fail with transport / transient errors
    pub down: Arc<std::sync::atomic::AtomicBool>,
    pub state: Arc<Mutex<NodeState>>,
    pub chain: Arc<Mutex<ChainState>>,
    pub log: EventLog,
    /// called (on the tower's thread, no node lock held) right before an RPC fails with a transport error
    pub on_failed_rpc: Arc<Mutex<Option<Arc<dyn Fn(&str) + Send + Sync>>>>,
}

#[derive(Debug)]
struct Refused;
impl std::fmt::Display for Refused {
    fn fmt(&self, f: &mut std::fmt::Formatter<'_>) -> std::fmt::Result {
        write!(f, "connection refused (scripted)")
    }
}
impl std::error::Error for Refused {}

impl SimNode {
    pub fn new(chain: Arc<Mutex<ChainState>>, log: EventLog) -> Self {
        SimNode { down: Arc::new(std::sync::atomic::AtomicBool::new(false)), state: Arc::new(Mutex::new(NodeState::default())), chain, log, on_failed_rpc: Arc::new(Mutex::new(None)) }
    }

    pub fn client(&self) -> bitcoincore_rpc::Client {
        bitcoincore_rpc::Client::from_jsonrpc(jsonrpc::Client::with_transport(self.clone()))
    }

    /// Default verdict of the node for `tx`, Bitcoin Core like.
    fn send(&self, tx: &Transaction) -> Verdict {
        let txid = tx.compute_txid();
        let mut st = lock(&self.state);
        // a transaction confirmed in the node's active chain is "already in chain" whatever the policy script says:
        // no node rejects (or re-accepts) what its own chain contains
        if !matches!(st.overrides.get(&txid), Some(Script::Garbage)) && lock(&self.chain).confirmed_height(&txid, usize::MAX).is_some() {
            return Verdict::Code(-27);
        }
        if let Some(s) = st.overrides.get(&txid).cloned() {
            return match s {
                Script::Accept => {
                    st.mempool.insert(txid, tx.clone());
                    Verdict::Accepted
                }
                Script::Code(c) => Verdict::Code(c),
                Script::Garbage => Verdict::Garbage,
            };
        }
        if st.mempool.contains_key(&txid) {
            return Verdict::AlreadyInMempool;
        }
        let chain = lock(&self.chain);
        if chain.confirmed_height(&txid, usize::MAX).is_some() {
            return Verdict::Code(-27);
        }
        if st.conflicted.contains(&txid) {
            return Verdict::Code(-25);
        }
        if let Some(p) = st.parent.get(&txid).copied() {
            if !st.mempool.contains_key(&p) && chain.confirmed_height(&p, usize::MAX).is_none() {
                return Verdict::Code(-25);
            }
            // another spend of the same parent output conflicts with this one
            for (sib, sp) in st.parent.iter() {
                if *sp == p && *sib != txid {
                    if st.mempool.contains_key(sib) {
                        return Verdict::Code(-26);
                    }
                    if chain.confirmed_height(sib, usize::MAX).is_some() {
                        return Verdict::Code(-25);
                    }
                }
            }
        }
        drop(chain);
        st.mempool.insert(txid, tx.clone());
        Verdict::Accepted
    }

    pub fn handle(&self, method: &str, params: &Value) -> Result<Result<Value, (i32, String)>, jsonrpc::Error> {
        boundary(&format!("rpc.{method}"));
        {
            let mut st = lock(&self.state);
            let idx = st.rpc_calls;
            st.rpc_calls += 1;
            if st.outage.map_or(false, |(a, b)| idx >= a && idx < b) {
                // the scripted outage starts with this very RPC and lasts until the harness ends it
                st.outage = None;
                self.down.store(true, std::sync::atomic::Ordering::SeqCst);
            }
            let failing = st.down || self.down.load(std::sync::atomic::Ordering::SeqCst);
            if failing {
                drop(st);
                let cb = lock(&self.on_failed_rpc).clone();
                if let Some(cb) = cb {
                    cb(method);
                }
                match method {
                    "sendrawtransaction" => {
                        let txid = params.get(0).and_then(|h| h.as_str()).and_then(|h| hex::decode(h).ok())
                            .and_then(|b| consensus::deserialize::<Transaction>(&b).ok()).map(|t| t.compute_txid());
                        if let Some(txid) = txid {
                            self.log.push(Ev::Send { txid, verdict: Verdict::Transport });
                        }
                    }
                    "getrawtransaction" => {
                        if let Some(txid) = params.get(0).and_then(|h| h.as_str()).and_then(|h| Txid::from_str(h).ok()) {
                            self.log.push(Ev::GetRaw { txid, found: None, verdict: Verdict::Transport });
                        }
                    }
                    _ => self.log.push(Ev::OtherRpc { method: method.to_string() }),
                }
                return Err(jsonrpc::Error::Transport(Box::new(Refused)));
            }
        }
        match method {
            "sendrawtransaction" => {
                let raw = params.get(0).and_then(|h| h.as_str()).unwrap_or("");
                let tx: Transaction = match hex::decode(raw).ok().and_then(|b| consensus::deserialize(&b).ok()) {
                    Some(t) => t,
                    None => return Ok(Err((-22, "TX decode failed".into()))),
                };
                let txid = tx.compute_txid();
                let v = self.send(&tx);
                self.log.push(Ev::Send { txid, verdict: v.clone() });
                Ok(match v {
                    Verdict::Accepted | Verdict::AlreadyInMempool => Ok(json!(txid.to_string())),
                    Verdict::Code(c) => Err((c, format!("scripted rejection {c}"))),
                    Verdict::Garbage => Ok(json!({"not": "a txid"})),
                    Verdict::Transport => unreachable!(),
                })
            }
            "getrawtransaction" => {
                let txid = match params.get(0).and_then(|h| h.as_str()).and_then(|h| Txid::from_str(h).ok()) {
                    Some(t) => t,
                    None => return Ok(Err((-8, "bad txid".into()))),
                };
                let st = lock(&self.state);
                let in_mempool = st.mempool.get(&txid).cloned();
                let txindex = st.txindex;
                drop(st);
                let render = |tx: &Transaction, blockhash: Option<String>| {
                    let ser = consensus::serialize(tx);
                    let mut v = json!({
                        "hex": hex::encode(&ser),
                        "txid": tx.compute_txid().to_string(),
                        "hash": tx.compute_wtxid().to_string(),
                        "size": ser.len(),
                        "vsize": tx.vsize(),
                        "version": tx.version.0,
                        "locktime": tx.lock_time.to_consensus_u32(),
                        "vin": [],
                        "vout": [],
                    });
                    if let Some(bh) = blockhash {
                        v["blockhash"] = json!(bh);
                        v["confirmations"] = json!(1);
                    }
                    v
                };
                if let Some(tx) = in_mempool {
                    self.log.push(Ev::GetRaw { txid, found: Some(true), verdict: Verdict::Accepted });
                    return Ok(Ok(render(&tx, None)));
                }
                if txindex {
                    let chain = lock(&self.chain);
                    if let Some(h) = chain.confirmed_height(&txid, usize::MAX) {
                        let sb = chain.block_at(h);
                        let tx = sb.block.txdata.iter().find(|t| t.compute_txid() == txid).unwrap().clone();
                        let bh = sb.block.block_hash().to_string();
                        drop(chain);
                        self.log.push(Ev::GetRaw { txid, found: Some(false), verdict: Verdict::Accepted });
                        return Ok(Ok(render(&tx, Some(bh))));
                    }
                }
                self.log.push(Ev::GetRaw { txid, found: None, verdict: Verdict::Code(-5) });
                Ok(Err((-5, "No such mempool or blockchain transaction".into())))
            }
            other => {
                self.log.push(Ev::OtherRpc { method: other.to_string() });
                Ok(Err((-32601, "Method not found".into())))
            }
        }
    }

    /// Block `hash` was mined on the active chain: its transactions leave the mempool.
    pub fn on_block_mined(&self, txids: &[Txid]) {
        let mut st = lock(&self.state);
        for t in txids {
            st.mempool.remove(t);
        }
    }

    /// Transactions of disconnected blocks that are not in the new chain go back to the mempool
    /// (unless conflicted), parents first.
    pub fn on_reorg(&self, orphaned: Vec<Transaction>) {
        let mut st = lock(&self.state);
        let chain = lock(&self.chain);
        for tx in orphaned {
            let id = tx.compute_txid();
            if chain.confirmed_height(&id, usize::MAX).is_some() || st.conflicted.contains(&id) {
                continue;
            }
            if let Some(p) = st.parent.get(&id).copied() {
                if !st.mempool.contains_key(&p) && chain.confirmed_height(&p, usize::MAX).is_none() {
                    continue;
                }
                let conflict = st.parent.iter().any(|(sib, sp)| *sp == p && *sib != id && (st.mempool.contains_key(sib) || chain.confirmed_height(sib, usize::MAX).is_some()));
                if conflict {
                    continue;
                }
            }
            st.mempool.insert(id, tx);
        }
    }
}

impl jsonrpc::client::Transport for SimNode {
    fn send_request(&self, req: jsonrpc::Request) -> Result<jsonrpc::Response, jsonrpc::Error> {
        let params: Value = match req.params {
            Some(raw) => serde_json::from_str(raw.get()).unwrap_or(Value::Null),
            None => Value::Null,
        };
        let out = self.handle(req.method, &params)?;
        let (result, error) = match out {
            Ok(v) => (Some(serde_json::value::to_raw_value(&v).unwrap()), None),
            Err((code, message)) => (None, Some(jsonrpc::error::RpcError { code, message, data: None })),
        };
        Ok(jsonrpc::Response { result, error, id: req.id, jsonrpc: Some("2.0".into()) })
    }

    fn send_batch(&self, reqs: &[jsonrpc::Request]) -> Result<Vec<jsonrpc::Response>, jsonrpc::Error> {
        let mut v = Vec::new();
        for r in reqs {
            v.push(self.send_request(jsonrpc::Request { method: r.method, params: r.params, id: r.id.clone(), jsonrpc: r.jsonrpc })?);
        }
        Ok(v)
    }

    fn fmt_target(&self, f: &mut std::fmt::Formatter) -> std::fmt::Result {
        write!(f, "simnode")
    }
}
