//! C17 — blobs decrypt only under their dispute id; signatures bind signer and message.
//! Direct calls into teos_common::cryptography with independent expectations.

use crate::gen;
use crate::report::Report;
use crate::rng::{fnv, Rng};
use bitcoin::consensus;
use bitcoin::hashes::Hash;
use serde_json::json;
use teos_common::appointment::Locator;
use teos_common::cryptography as c;

pub fn run(seed: u64, shard: u64, cases: u64, rep: &mut Report) {
    let r = rep.p("C17");
    let mut ids: Vec<(bitcoin::Txid, Vec<u8>, bitcoin::Transaction)> = Vec::new();
    for i in 0..cases {
        let mut rng = Rng::stream(seed, 0xC17 + shard, i);
        r.eval();
        // --- blob part
        let big = rng.chance(1, 40);
        let (n_in, n_out) = (1 + rng.usize(4), 1 + rng.usize(4));
        let max_script = if big { 10_000 } else { *rng.pick(&[0usize, 1, 25, 80, 300]) };
        let max_wit = if big { 10_000 } else { *rng.pick(&[0usize, 0, 72, 150]) };
        let tx = gen::random_tx(&mut rng, n_in, n_out, max_script, max_wit);
        let k = gen::txid(&mut rng);
        let ser = consensus::serialize(&tx);
        let blob = match c::encrypt(&tx, &k) {
            Ok(b) => b,
            Err(e) => {
                r.violation("C17:encrypt-error", format!("encrypt failed: {e:?}"), json!({"seed":seed,"shard":shard,"case":i}));
                continue;
            }
        };
        let h = fnv(&blob);
        r.nontrivial(h);
        r.count("blobs", 1);
        r.max("max_blob_len", blob.len() as u64);
        let replay = json!({"engine":"c17","seed":seed,"shard":shard,"case":i});
        // round trip
        match c::decrypt(&blob, &k) {
            Ok(t) if t == tx => {}
            other => r.violation("C17:roundtrip", format!("decrypt(encrypt(t,k),k) != t: {other:?}"), replay.clone()),
        }
        // independent statement of the scheme agrees
        if gen::encrypt_bytes(&ser, &k) != blob {
            r.violation("C17:scheme", "ciphertext differs from chacha20poly1305(sha256(k), 0, ser(t))", replay.clone());
        }
        // wrong key
        let k2 = gen::txid(&mut rng);
        if k2 != k && c::decrypt(&blob, &k2).is_ok() {
            r.violation("C17:wrong-key", "blob decrypts under another id", replay.clone());
        }
        // a key differing in a single bit
        let mut kb = *k.as_byte_array();
        let bit = rng.usize(256);
        kb[bit / 8] ^= 1 << (bit % 8);
        if c::decrypt(&blob, &bitcoin::Txid::from_byte_array(kb)).is_ok() {
            r.violation("C17:wrong-key-bit", "blob decrypts under an id differing in one bit", replay.clone());
        }
        // ids sharing the 16-byte locator (differing only in the second half), used back to back with k
        for _ in 0..3 {
            let mut ks = *k.as_byte_array();
            let bit = 128 + rng.usize(128);
            ks[bit / 8] ^= 1 << (bit % 8);
            let ks = bitcoin::Txid::from_byte_array(ks);
            r.count("same_locator_id_pairs", 1);
            let _ = c::decrypt(&blob, &k);
            if c::decrypt(&blob, &ks).is_ok() {
                r.violation("C17:wrong-key-same-locator", "blob decrypts under a different id that shares its locator", replay.clone());
            }
            let _ = c::encrypt(&tx, &k);
            match c::encrypt(&tx, &ks) {
                Ok(b2) => {
                    if b2 == blob {
                        r.violation("C17:same-ciphertext-same-locator", "two ids sharing a locator produce the same ciphertext", replay.clone());
                    }
                    match c::decrypt(&b2, &ks) {
                        Ok(t) if t == tx => {}
                        _ => r.violation("C17:roundtrip", "round trip fails for an id used right after another one with the same locator", replay.clone()),
                    }
                    if c::decrypt(&b2, &k).is_ok() {
                        r.violation("C17:wrong-key-same-locator", "blob decrypts under a different id that shares its locator", replay.clone());
                    }
                }
                Err(_) => r.violation("C17:encrypt-error", "encrypt failed", replay.clone()),
            }
        }
        // bit flips: all for short blobs, a sample for long ones
        let nbits = blob.len() * 8;
        let flips: Vec<usize> = if nbits <= 2048 { (0..nbits).collect() } else { (0..256).map(|_| rng.usize(nbits)).collect() };
        for b in flips {
            let mut m = blob.clone();
            m[b / 8] ^= 1 << (b % 8);
            r.count("ciphertext_mutations", 1);
            if c::decrypt(&m, &k).is_ok() {
                r.violation("C17:bitflip", format!("ciphertext with bit {b} flipped decrypts"), replay.clone());
                break;
            }
        }
        // truncations and extensions
        let cuts: Vec<usize> = if blob.len() <= 300 { (0..blob.len()).collect() } else { (0..64).map(|_| rng.usize(blob.len())).chain([0, 1, 15, 16, 17, blob.len() - 1]).collect() };
        for cut in cuts {
            r.count("ciphertext_mutations", 1);
            if c::decrypt(&blob[..cut], &k).is_ok() {
                r.violation("C17:truncation", format!("ciphertext truncated to {cut} decrypts"), replay.clone());
                break;
            }
        }
        for ext in [1usize, 2, 16, 33] {
            let mut m = blob.clone();
            m.extend(rng.bytes(ext));
            r.count("ciphertext_mutations", 1);
            if c::decrypt(&m, &k).is_ok() {
                r.violation("C17:extension", format!("ciphertext extended by {ext} decrypts"), replay.clone());
            }
        }
        // authenticates but plaintext is not exactly one transaction
        let mut trailing = ser.clone();
        trailing.push(rng.next_u32() as u8);
        if c::decrypt(&gen::encrypt_bytes(&trailing, &k), &k).is_ok() {
            r.violation("C17:trailing", "plaintext with trailing byte accepted as transaction", replay.clone());
        }
        if ser.len() > 1 && c::decrypt(&gen::encrypt_bytes(&ser[..ser.len() - 1], &k), &k).is_ok() {
            r.violation("C17:short-plain", "truncated plaintext accepted as transaction", replay.clone());
        }
        // locator
        if Locator::new(k).to_vec() != k.as_byte_array()[..16].to_vec() {
            r.violation("C17:locator", "locator is not the first 16 bytes of the id", replay.clone());
        }
        if ids.len() < 48 {
            ids.push((k, blob.clone(), tx.clone()));
        }

        // --- signature part
        let (sk, pk) = gen::keypair(&mut rng);
        let mlen = *rng.pick(&[0usize, 1, 16, 33, 45, 100, 1000]);
        let msg = rng.bytes(mlen);
        let sig = c::sign(&msg, &sk);
        r.count("signatures", 1);
        r.nontrivial(fnv(sig.as_bytes()) ^ 0x5151);
        match c::recover_pk(&msg, &sig) {
            Ok(p) if p == pk => {}
            other => r.violation("C17:recover", format!("recover_pk(m, sign(m,sk)) != pk: {other:?}"), replay.clone()),
        }
        if !c::verify(&msg, &sig, &pk) {
            r.violation("C17:verify-own", "own signature does not verify", replay.clone());
        }
        let (_, pk2) = gen::keypair(&mut rng);
        if c::verify(&msg, &sig, &pk2) {
            r.violation("C17:verify-other-key", "signature verifies for another key", replay.clone());
        }
        // message bit flips
        let mbits = msg.len() * 8;
        let mflips: Vec<usize> = if mbits <= 512 { (0..mbits).collect() } else { (0..128).map(|_| rng.usize(mbits)).collect() };
        for b in mflips {
            let mut m = msg.clone();
            m[b / 8] ^= 1 << (b % 8);
            r.count("signature_mutations", 1);
            if c::verify(&m, &sig, &pk) {
                r.violation("C17:msg-bitflip", format!("signature verifies for message with bit {b} flipped"), replay.clone());
                break;
            }
        }
        // message truncation / extension
        if !msg.is_empty() && c::verify(&msg[..msg.len() - 1], &sig, &pk) {
            r.violation("C17:msg-trunc", "signature verifies for truncated message", replay.clone());
        }
        let mut me = msg.clone();
        me.push(0);
        if c::verify(&me, &sig, &pk) {
            r.violation("C17:msg-ext", "signature verifies for extended message", replay.clone());
        }
        // signature string: every single-character substitution (by another alphabet character),
        // every truncation
        const ZB: &[u8] = b"ybndrfg8ejkmcpqxot1uwisza345h769";
        let sb = sig.as_bytes();
        for pos in 0..sb.len() {
            let mut alt = ZB[rng.usize(32)];
            if alt == sb[pos] {
                alt = ZB[(ZB.iter().position(|x| *x == alt).unwrap() + 1) % 32];
            }
            let mut m = sb.to_vec();
            m[pos] = alt;
            let ms = String::from_utf8(m).unwrap();
            r.count("signature_mutations", 1);
            // The last zbase32 character of a 65-byte signature carries only 5 of its bits partially:
            // 65*8 = 520 = 104*5, so all characters are fully significant.
            if c::verify(&msg, &ms, &pk) {
                r.violation("C17:sig-char", format!("signature with character {pos} changed verifies"), replay.clone());
                break;
            }
        }
        for cut in 0..sb.len() {
            r.count("signature_mutations", 1);
            if c::verify(&msg, &sig[..cut], &pk) {
                r.violation("C17:sig-trunc", format!("signature truncated to {cut} verifies"), replay.clone());
                break;
            }
        }
        for bad in ["", "!", "not zbase32 ~~~", "lI0O"] {
            let mut s2 = sig.clone();
            s2.push_str(bad);
            if !bad.is_empty() && c::verify(&msg, &s2, &pk) {
                r.violation("C17:sig-ext", "signature with appended characters verifies", replay.clone());
            }
            if c::verify(&msg, bad, &pk) {
                r.violation("C17:sig-garbage", "garbage signature verifies", replay.clone());
            }
        }
        r.sample(|| json!({"case": i, "tx_len": ser.len(), "blob_len": blob.len(), "id": k.to_string(), "msg_len": msg.len(), "sig": sig}));
    }
    // all pairs of distinct ids over the generated set
    for (i, (k, _, _)) in ids.iter().enumerate() {
        for (j, (k2, blob2, _)) in ids.iter().enumerate() {
            if i != j && k != k2 {
                r.count("id_pairs", 1);
                if c::decrypt(blob2, k).is_ok() {
                    r.violation("C17:pair", "blob decrypts under another generated id", json!({"seed":seed,"shard":shard,"pair":[i,j]}));
                }
            }
        }
    }
}
