//! E3 engine: E1 histories, model and monitors against the real `teosd` binary.
//!
//! Same generator, same `TowerModel`, same cross-checks as `e1`, but the tower is a `teosd` process
//! (verif build) bootstrapped by its own `main.rs` against a fake bitcoind over real TCP; user
//! requests go through the HTTP API (or, when the front-end could not carry them, the internal gRPC
//! API), operator requests through the mTLS gRPC API; restarts are SIGKILL or the `stop` RPC in turns.
//! What this adds to E1: `main.rs` itself (listener order, block cache slices, bootstrap persistence,
//! configuration plumbing), the three servers, the real block-source and node RPC clients.

use crate::chain::SimChain;
use crate::e1::{Case, Exit};
use crate::model::viol;
use crate::panics;
use crate::remote::{panic_in, run_remote_session, FakeBitcoind, StopMode, TeosdOpts};
use crate::report::Report;
use crate::tower::BootError;
use std::path::{Path, PathBuf};
use std::sync::Arc;

pub struct RemoteStats {
    pub sessions: u64,
    pub graceful_stops: u64,
    pub graceful_failed: u64,
    pub http_calls: u64,
    pub grpc_calls: u64,
    pub btc_requests: u64,
    pub inconclusive: Option<String>,
    /// per teosd process (with `trace`): hook points hit, names of the points
    pub points: Vec<Vec<String>>,
    /// per teosd process: requests the fake bitcoind received from it
    pub requests: Vec<u64>,
}

/// Runs one case to completion against real teosd processes (restarts included).
pub fn run_case_remote(case: &mut Case, base: &Path, trace: bool) -> RemoteStats {
    run_case_remote_wrapped(case, base, trace, &[]).0
}

/// Like `run_case_remote`, with teosd started under `wrapper` (a memory checker); every process is then stopped
/// gracefully so that the wrapper can print its summary. Returns the concatenated process outputs as well.
pub fn run_case_remote_wrapped(case: &mut Case, base: &Path, trace: bool, wrapper: &[String]) -> (RemoteStats, String) {
    let mut outputs = String::new();
    let datadir = base.join(format!("teosd-{}", case.id));
    let _ = std::fs::remove_dir_all(&datadir);
    std::fs::create_dir_all(&datadir).unwrap();
    case.cfg.db_path = datadir.join("regtest").join("teos_db.sql3");
    let chain: Arc<SimChain> = Arc::new({
        let mut c = case.world.simchain();
        c.snap_path = Some(case.cfg.db_path.clone());
        c
    });
    let btc = FakeBitcoind::start(chain, case.world.node.clone());
    let mut stats = RemoteStats { sessions: 0, graceful_stops: 0, graceful_failed: 0, http_calls: 0, grpc_calls: 0, btc_requests: 0, inconclusive: None, points: Vec::new(), requests: Vec::new() };
    loop {
        let trace_path = datadir.join(format!("trace-{}.log", stats.sessions));
        let opts = TeosdOpts { trace: if trace { Some(trace_path.clone()) } else { None }, wrapper: wrapper.to_vec(), ..Default::default() };
        let boot_log_start = case.world.log.len();
        case.model.on_restart(boot_log_start);
        let stop = if case.restarts % 2 == 1 || !wrapper.is_empty() { StopMode::Graceful } else { StopMode::Kill };
        let graceful = matches!(stop, StopMode::Graceful);
        let mut counters = (0u64, 0u64);
        let cfg = case.cfg.clone();
        let res = run_remote_session(&btc, &datadir, &cfg, &opts, stop, |s| {
            let fp = s.first_poll_log_idx;
            let e = case.drive(s, fp);
            if let crate::tower::Api::Remote(r) = &s.api {
                counters = (r.http_calls.load(std::sync::atomic::Ordering::SeqCst), r.grpc_calls.load(std::sync::atomic::Ordering::SeqCst));
            }
            e
        });
        stats.sessions += 1;
        if trace {
            let names: Vec<String> = std::fs::read_to_string(&trace_path).unwrap_or_default().lines().map(|l| l.split_once(' ').map(|x| x.1).unwrap_or(l).to_string()).collect();
            stats.points.push(names);
        }
        stats.requests.push(crate::chain::lock(&btc.st.0).session_requests);
        stats.http_calls += counters.0;
        stats.grpc_calls += counters.1;
        match res {
            Ok(out) => {
                if !wrapper.is_empty() {
                    // the output file is appended to across restarts
                    outputs = out.output.clone();
                }
                if out.output.contains("Address already in use") {
                    stats.inconclusive = Some("a listening port of teosd was taken by another process".into());
                    break;
                }
                if let Some((loc, msg)) = panic_in(&out.output) {
                    let op = case.ops.last().map(|o| format!("{o:?}")).unwrap_or_default();
                    case.viols.push(viol(&["C11"], format!("C11:panic:teosd:msg={}", panics::message_class(&msg)), format!("teosd panicked at {loc}: {msg}; last step {} {op}", case.steps)));
                    break;
                }
                if !out.alive_at_end {
                    case.viols.push(viol(&["C11"], "C11:teosd-exited", format!("teosd exited on its own during step {}; output tail: {}", case.steps, tail(&out.output))));
                    break;
                }
                if let Some(e) = out.poll_failure {
                    stats.inconclusive = Some(format!("poll: {e}"));
                    break;
                }
                if graceful {
                    stats.graceful_stops += 1;
                    if out.graceful_exit == Some(false) {
                        stats.graceful_failed += 1;
                    }
                }
                match out.value {
                    Exit::Done => break,
                    Exit::Restart => {
                        case.restarts += 1;
                        continue;
                    }
                }
            }
            Err(BootError::Source(e)) if e.contains("Address already in use") || e.contains("AddrInUse") => {
                stats.inconclusive = Some("a listening port of teosd was taken by another process".into());
                break;
            }
            Err(BootError::Source(e)) if stats.sessions == 1 && !e.contains("panicked") => {
                stats.inconclusive = Some(format!("first start failed: {e}"));
                break;
            }
            Err(e) => {
                case.viols.push(viol(&["C03"], "C03:restart-failed", format!("teosd failed to (re)start on its own data directory: {e:?}")));
                break;
            }
        }
    }
    stats.btc_requests = crate::chain::lock(&btc.st.0).requests;
    btc.shutdown();
    let _ = std::fs::remove_dir_all(&datadir);
    (stats, outputs)
}

fn tail(out: &str) -> String {
    out.lines().rev().take(5).collect::<Vec<_>>().into_iter().rev().collect::<Vec<_>>().join(" | ")
}

/// Entry point of the `e3` engine. `props` are credited with an evaluation per history.
pub fn run(seed: u64, shard: u64, nshards: u64, cases: u64, bias: &str, parallel: usize, only_case: Option<u64>, props: &[String], memcheck: bool, rep: &mut Report) {
    let dir = PathBuf::from(format!("/dev/shm/tv-e3-{}", std::process::id()));
    std::fs::create_dir_all(&dir).unwrap();
    let ids: Vec<u64> = match only_case {
        Some(c) => vec![c],
        None => (0..cases).map(|i| 7_000_000 + shard + i * nshards).collect(),
    };
    let wrapper: Vec<String> = if memcheck { ["valgrind", "-q", "--error-exitcode=97", "--num-callers=14", "--track-origins=no"].iter().map(|s| s.to_string()).collect() } else { Vec::new() };
    let results: std::sync::Mutex<Vec<(u64, Case, RemoteStats, String)>> = std::sync::Mutex::new(Vec::new());
    let next = std::sync::atomic::AtomicUsize::new(0);
    std::thread::scope(|sc| {
        for _ in 0..parallel.max(1).min(ids.len().max(1)) {
            sc.spawn(|| loop {
                let k = next.fetch_add(1, std::sync::atomic::Ordering::SeqCst);
                if k >= ids.len() {
                    break;
                }
                let id = ids[k];
                // every third history is a directed one (see `e1::scripted_case`)
                let scripted = only_case.is_none() && !bias.starts_with("script:") && id % 3 == 0;
                let b = if scripted { format!("script:{}", crate::e1::SCRIPT_KINDS[((id / 3) % crate::e1::SCRIPT_KINDS.len() as u64) as usize]) } else { bias.to_string() };
                // a history whose teosd lost a listening port to a concurrent process is simply run again
                let mut attempt = 0;
                let (case, stats, output) = loop {
                    attempt += 1;
                    let mut case = Case::new(seed, id, &b, &dir);
                    if memcheck {
                        // a memory checker slows teosd down ~25x: short histories
                        case.max_steps = case.max_steps.min(40);
                    }
                    let (stats, output) = run_case_remote_wrapped(&mut case, &dir, false, &wrapper);
                    let port_clash = stats.inconclusive.as_deref().map_or(false, |w| w.contains("listening port"));
                    if !port_clash || attempt >= 3 {
                        break (case, stats, output);
                    }
                };
                results.lock().unwrap().push((id, case, stats, output));
            });
        }
    });
    let mut results = results.into_inner().unwrap();
    results.sort_by_key(|r| r.0);
    for (id, case, stats, output) in results {
        if let Some(why) = &stats.inconclusive {
            for p in props {
                let r = rep.p(p);
                r.eval();
                r.inconclusive += 1;
                r.note(format!("e3 history {id}: {why}"));
            }
            continue;
        }
        crate::e1::report_case(rep, &case, id, seed, "e3");
        if memcheck {
            // valgrind -q prints only errors, each block starting with "==pid== <Kind>"
            let errs: Vec<&str> = output.lines().filter(|l| l.starts_with("==") && (l.contains("Invalid ") || l.contains("uninitialised") || l.contains("Mismatched") || l.contains("overlap") || l.contains("Process terminating"))).collect();
            let r = rep.p("C11");
            r.count("e3_memcheck_histories", 1);
            r.count("e3_memcheck_teosd_processes", stats.sessions);
            if let Some(first) = errs.first() {
                let kind: String = first.splitn(3, "== ").last().unwrap_or("").split_whitespace().take(3).collect::<Vec<_>>().join("-");
                let at = output.lines().skip_while(|l| l != first).take(12).collect::<Vec<_>>().join(" | ");
                r.violation(format!("C11:memcheck:{kind}"), format!("e3 history {id}: valgrind memcheck reported {} error lines on teosd; first: {at}", errs.len()), case.replay_json("e3", seed));
            }
        }
        for p in props {
            let r = rep.p(p);
            r.count("e3_histories", 1);
            r.count("e3_teosd_processes", stats.sessions);
            r.count("e3_http_requests", stats.http_calls);
            r.count("e3_internal_grpc_requests", stats.grpc_calls);
            r.count("e3_bitcoind_rpcs_served", stats.btc_requests);
            r.count("e3_graceful_stops", stats.graceful_stops);
            r.count("e3_graceful_stop_timeouts", stats.graceful_failed);
        }
    }
    std::fs::remove_dir_all(&dir).ok();
}
