//! E3 engine (see remote.rs)
