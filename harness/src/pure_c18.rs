//! C18 — the client store is consistent and reloadable; abandon deletes exactly one tower.
//! Random operation sequences on the real `WTClient` (+ its sqlite DBM); after EVERY prefix a second
//! client is opened on a copy of the directory and everything is compared with a dictionary model.

use crate::gen;
use crate::report::Report;
use crate::rng::{fnv, Rng};
use rusqlite::{Connection, OpenFlags};
use serde_json::json;
use std::collections::{BTreeMap, BTreeSet};
use std::path::{Path, PathBuf};
use teos_common::appointment::{Appointment, Locator};
use teos_common::receipts::{AppointmentReceipt, RegistrationReceipt};
use teos_common::TowerId;
use watchtower_plugin::wt_client::WTClient;
use watchtower_plugin::{MisbehaviorProof, TowerStatus};

#[derive(Clone, Debug, Default)]
struct MTower {
    addr: String,
    slots: u32,
    start: u32,
    expiry: u32,
    receipts: BTreeMap<Vec<u8>, String>, // locator -> tower signature
    pending: BTreeSet<Vec<u8>>,
    invalid: BTreeSet<Vec<u8>>,
    misbehaving: bool,
    /// status as set in memory
    mem_status: Option<TowerStatus>,
}

#[derive(Clone, Debug)]
enum Op {
    Register(usize),
    Receipt(usize, usize),
    Pending(usize, usize),
    Invalid(usize, usize),
    PendingToAccepted(usize, usize),
    PendingToInvalid(usize, usize),
    Misbehave(usize, usize),
    Abandon(usize),
    SetStatus(usize, u8),
}

/// (table, row as text) for every row of every table, optionally only rows mentioning `tower`.
pub fn dump(path: &Path) -> Vec<(String, Vec<String>)> {
    let c = Connection::open_with_flags(path, OpenFlags::SQLITE_OPEN_READ_ONLY).unwrap();
    let mut out = Vec::new();
    for t in ["towers", "appointments", "pending_appointments", "invalid_appointments", "registration_receipts", "appointment_receipts", "misbehaving_proofs"] {
        let mut st = c.prepare(&format!("SELECT * FROM {t}")).unwrap();
        let n = st.column_count();
        let mut rows = st.query([]).unwrap();
        while let Some(r) = rows.next().unwrap() {
            let mut cols = Vec::new();
            for i in 0..n {
                let v: rusqlite::types::Value = r.get(i).unwrap();
                cols.push(match v {
                    rusqlite::types::Value::Blob(b) => hex::encode(b),
                    rusqlite::types::Value::Text(s) => s,
                    rusqlite::types::Value::Integer(i) => i.to_string(),
                    other => format!("{other:?}"),
                });
            }
            out.push((t.to_string(), cols));
        }
    }
    out
}

fn copy_dir(from: &Path, to: &Path) {
    let _ = std::fs::remove_dir_all(to);
    std::fs::create_dir_all(to).unwrap();
    for e in std::fs::read_dir(from).unwrap() {
        let e = e.unwrap();
        std::fs::copy(e.path(), to.join(e.file_name())).unwrap();
    }
}

pub fn run(seed: u64, shard: u64, sequences: u64, rep: &mut Report) {
    let r = rep.p("C18");
    let base = PathBuf::from(format!("/dev/shm/tv-c18-{}-{shard}", std::process::id()));
    let rt = tokio::runtime::Builder::new_current_thread().enable_all().build().unwrap();
    for s in 0..sequences {
        let mut rng = Rng::stream(seed, 0xC18 + shard, s);
        let dir = base.join("live");
        let copy = base.join("copy");
        let _ = std::fs::remove_dir_all(&dir);
        let (tx, _rx) = tokio::sync::mpsc::unbounded_channel();
        let mut client = rt.block_on(WTClient::new(dir.clone(), tx));
        let n_towers = 2 + rng.usize(3);
        let towers: Vec<_> = (0..n_towers).map(|_| gen::keypair(&mut rng)).collect();
        let n_loc = 3 + rng.usize(4);
        let appts: Vec<Appointment> = (0..n_loc).map(|_| Appointment::new(Locator::from_slice(&rng.bytes(16)).unwrap(), rng.bytes_pick(&[0, 1, 40, 300]), rng.next_u32())).collect();
        let mut model: BTreeMap<usize, MTower> = BTreeMap::new();
        let mut ops_done: Vec<String> = Vec::new();
        let n_ops = 8 + rng.usize(30);
        let mut failed = false;
        r.eval();
        for step in 0..n_ops {
            // ---- choose an operation that the real client code is specified for
            let t = rng.usize(n_towers);
            let l = rng.usize(n_loc);
            let lv = appts[l].locator.to_vec();
            let op = if !model.contains_key(&t) {
                Op::Register(t)
            } else {
                let m = &model[&t];
                match rng.below(12) {
                    0 => Op::Register(t),
                    1 | 2 if !m.receipts.contains_key(&lv) && !m.pending.contains(&lv) && !m.invalid.contains(&lv) => Op::Receipt(t, l),
                    3 | 4 if !m.pending.contains(&lv) && !m.receipts.contains_key(&lv) && !m.invalid.contains(&lv) => Op::Pending(t, l),
                    5 if !m.invalid.contains(&lv) && !m.pending.contains(&lv) && !m.receipts.contains_key(&lv) => Op::Invalid(t, l),
                    6 | 7 if m.pending.contains(&lv) && !m.receipts.contains_key(&lv) => Op::PendingToAccepted(t, l),
                    8 if m.pending.contains(&lv) && !m.invalid.contains(&lv) => Op::PendingToInvalid(t, l),
                    9 if !m.misbehaving && !m.receipts.contains_key(&lv) && !m.pending.contains(&lv) && !m.invalid.contains(&lv) => Op::Misbehave(t, l),
                    10 => Op::Abandon(t),
                    11 => Op::SetStatus(t, rng.below(3) as u8),
                    _ => Op::Register(t),
                }
            };
            let tower_id = TowerId(towers[t].1);
            let before = dump(&dir.join("watchtowers_db.sql3"));
            match &op {
                Op::Register(t) => {
                    let prev = model.get(t).cloned();
                    let (slots, start, expiry) = match &prev {
                        None => (1 + rng.next_u32() % 1000, rng.next_u32() % 1000, 1000 + rng.next_u32() % 1000),
                        // renewals: sometimes not strictly extending (must be refused)
                        Some(p) => match rng.below(4) {
                            0 => (p.slots, p.start, p.expiry + 10),
                            1 => (p.slots + 5, p.start, p.expiry),
                            _ => (p.slots + 1 + rng.next_u32() % 50, p.start, p.expiry + 1 + rng.next_u32() % 500),
                        },
                    };
                    let mut receipt = RegistrationReceipt::new(client.user_id, slots, start, expiry);
                    receipt.sign(&towers[*t].0);
                    let addr = format!("http://tower{t}.example:{}", 9000 + rng.usize(3));
                    let res = client.add_update_tower(tower_id, &addr, &receipt);
                    let should_ok = prev.as_ref().map_or(true, |p| expiry > p.expiry && slots > p.slots);
                    if res.is_ok() != should_ok {
                        r.violation("C18:renewal-rule", format!("add_update_tower returned {res:?} for (slots {slots}, expiry {expiry}) over {:?}", prev.map(|p| (p.slots, p.expiry))), json!({"engine":"c18","seed":seed,"shard":shard,"sequence":s}));
                        failed = true;
                    }
                    if should_ok && res.is_ok() {
                        let m = model.entry(*t).or_default();
                        m.addr = addr;
                        m.slots = slots;
                        m.start = start;
                        m.expiry = expiry;
                    }
                }
                Op::Receipt(t, l) | Op::PendingToAccepted(t, l) => {
                    let slots = model[t].slots.saturating_sub(1);
                    let mut receipt = AppointmentReceipt::new(format!("usersig{l}"), rng.next_u32() % 1000);
                    receipt.sign(&towers[*t].0);
                    client.add_appointment_receipt(tower_id, appts[*l].locator, slots, &receipt);
                    if let Op::PendingToAccepted(..) = op {
                        client.remove_pending_appointment(tower_id, appts[*l].locator);
                        model.get_mut(t).unwrap().pending.remove(&lv);
                    }
                    let m = model.get_mut(t).unwrap();
                    m.slots = slots;
                    m.receipts.insert(lv.clone(), receipt.signature().unwrap());
                }
                Op::Pending(t, l) => {
                    client.add_pending_appointment(tower_id, &appts[*l]);
                    model.get_mut(t).unwrap().pending.insert(lv.clone());
                }
                Op::Invalid(t, l) => {
                    client.add_invalid_appointment(tower_id, &appts[*l]);
                    model.get_mut(t).unwrap().invalid.insert(lv.clone());
                }
                Op::PendingToInvalid(t, l) => {
                    // the order the retrier uses: invalid first, then remove pending
                    client.add_invalid_appointment(tower_id, &appts[*l]);
                    client.remove_pending_appointment(tower_id, appts[*l].locator);
                    let m = model.get_mut(t).unwrap();
                    m.invalid.insert(lv.clone());
                    m.pending.remove(&lv);
                }
                Op::Misbehave(t, l) => {
                    let (osk, opk) = gen::keypair(&mut rng);
                    let mut receipt = AppointmentReceipt::new(format!("usersig{l}"), 7);
                    receipt.sign(&osk);
                    let sig = receipt.signature().unwrap();
                    client.flag_misbehaving_tower(tower_id, MisbehaviorProof::new(appts[*l].locator, receipt, TowerId(opk)));
                    let m = model.get_mut(t).unwrap();
                    m.misbehaving = true;
                    m.receipts.insert(lv.clone(), sig);
                    m.mem_status = Some(TowerStatus::Misbehaving);
                }
                Op::Abandon(t) => {
                    let _ = client.remove_tower(tower_id);
                    model.remove(t);
                }
                Op::SetStatus(t, k) => {
                    let st = [TowerStatus::Unreachable, TowerStatus::SubscriptionError, TowerStatus::TemporaryUnreachable][*k as usize];
                    if !model[t].misbehaving {
                        client.set_tower_status(tower_id, st);
                        model.get_mut(t).unwrap().mem_status = Some(st);
                    }
                }
            }
            ops_done.push(format!("{op:?}"));
            let replay = json!({"engine":"c18","seed":seed,"shard":shard,"sequence":s,"ops":ops_done});
            let ctx = format!("sequence {s} after op #{step} {op:?}");
            // ---- checks after this prefix
            let db_path = dir.join("watchtowers_db.sql3");
            let rows = dump(&db_path);
            r.count("prefixes_checked", 1);
            // (1) memory == load_towers() == model
            let loaded = client.dbm.load_towers();
            let mem = &client.towers;
            if mem.len() != model.len() || loaded.len() != model.len() {
                r.violation("C18:tower-set", format!("{ctx}: memory holds {} towers, load_towers {} and the model {}", mem.len(), loaded.len(), model.len()), replay.clone());
                failed = true;
            }
            for (t, m) in &model {
                let id = TowerId(towers[*t].1);
                let as_set = |s: &std::collections::HashSet<Locator>| s.iter().map(|l| l.to_vec()).collect::<BTreeSet<_>>();
                for (name, sum) in [("memory", mem.get(&id)), ("load_towers", loaded.get(&id))] {
                    match sum {
                        None => {
                            r.violation(format!("C18:{name}-tower-missing"), format!("{ctx}: tower {t} not in {name}"), replay.clone());
                            failed = true;
                        }
                        Some(su) => {
                            if su.net_addr.net_addr() != m.addr || su.available_slots != m.slots || su.subscription_expiry != m.expiry || as_set(&su.pending_appointments) != m.pending || as_set(&su.invalid_appointments) != m.invalid {
                                r.violation(format!("C18:{name}-summary-differs"), format!("{ctx}: {name} view of tower {t} = (addr {}, slots {}, expiry {}, {} pending, {} invalid), model (addr {}, slots {}, expiry {}, {} pending, {} invalid)", su.net_addr.net_addr(), su.available_slots, su.subscription_expiry, su.pending_appointments.len(), su.invalid_appointments.len(), m.addr, m.slots, m.expiry, m.pending.len(), m.invalid.len()), replay.clone());
                                failed = true;
                            }
                        }
                    }
                }
                // status after a reload: proof => misbehaving, pending => temporary unreachable, else reachable
                let want = if m.misbehaving { TowerStatus::Misbehaving } else if !m.pending.is_empty() { TowerStatus::TemporaryUnreachable } else { TowerStatus::Reachable };
                if loaded.get(&id).map(|x| x.status) != Some(want) {
                    r.violation("C18:reloaded-status", format!("{ctx}: reloaded status of tower {t} is {:?}, expected {want:?}", loaded.get(&id).map(|x| x.status)), replay.clone());
                    failed = true;
                }
                // (2) the full record
                match client.load_tower_info(id) {
                    None => {
                        r.violation("C18:record-missing", format!("{ctx}: load_tower_record finds nothing for tower {t}"), replay.clone());
                        failed = true;
                    }
                    Some(info) => {
                        let rec: BTreeMap<Vec<u8>, String> = info.appointments.iter().map(|(l, s)| (l.to_vec(), s.clone())).collect();
                        let pend: BTreeSet<Vec<u8>> = info.pending_appointments.iter().map(|a| a.locator.to_vec()).collect();
                        let inv: BTreeSet<Vec<u8>> = info.invalid_appointments.iter().map(|a| a.locator.to_vec()).collect();
                        let bodies_ok = info.pending_appointments.iter().chain(info.invalid_appointments.iter()).all(|a| appts.iter().any(|x| x == a));
                        if rec != m.receipts || pend != m.pending || inv != m.invalid || !bodies_ok || info.misbehaving_proof.is_some() != m.misbehaving || info.available_slots != m.slots || info.subscription_start != m.start || info.subscription_expiry != m.expiry {
                            r.violation("C18:record-differs", format!("{ctx}: load_tower_record of tower {t} differs from the model (receipts {}/{}, pending {}/{}, invalid {}/{}, bodies intact {bodies_ok}, proof {}/{})", rec.len(), m.receipts.len(), pend.len(), m.pending.len(), inv.len(), m.invalid.len(), info.misbehaving_proof.is_some(), m.misbehaving), replay.clone());
                            failed = true;
                        }
                    }
                }
            }
            // (3) abandon deletes all and only that tower's rows
            if let Op::Abandon(t) = &op {
                let idhex = hex::encode(towers[*t].1.serialize());
                if rows.iter().any(|(_, cols)| cols.iter().any(|c| *c == idhex)) {
                    r.violation("C18:abandon-leaves-rows", format!("{ctx}: rows referencing the abandoned tower remain"), replay.clone());
                    failed = true;
                }
                let others_before: Vec<_> = before.iter().filter(|(tb, cols)| tb != "appointments" && !cols.iter().any(|c| *c == idhex)).collect();
                let others_after: Vec<_> = rows.iter().filter(|(tb, _)| tb != "appointments").collect();
                if others_before != others_after {
                    r.violation("C18:abandon-touches-others", format!("{ctx}: abandoning tower {t} changed rows of other towers"), replay.clone());
                    failed = true;
                }
                r.count("abandons_checked", 1);
            }
            // (4) shared bodies: present as long as some pending / invalid row references them
            let referenced: BTreeSet<String> = rows.iter().filter(|(tb, _)| tb == "pending_appointments" || tb == "invalid_appointments").map(|(_, c)| c[0].clone()).collect();
            let bodies: BTreeSet<String> = rows.iter().filter(|(tb, _)| tb == "appointments").map(|(_, c)| c[0].clone()).collect();
            for l in &referenced {
                if !bodies.contains(l) {
                    r.violation("C18:body-missing", format!("{ctx}: appointment body {l} is referenced by a pending/invalid row but not stored"), replay.clone());
                    failed = true;
                }
            }
            r.count("orphan_bodies_observed", bodies.difference(&referenced).count() as u64);
            // (5) reload on a copy
            copy_dir(&dir, &copy);
            let (tx2, mut rx2) = tokio::sync::mpsc::unbounded_channel();
            let reloaded = rt.block_on(WTClient::new(copy.clone(), tx2));
            if reloaded.user_id != client.user_id {
                r.violation("C18:key-not-reloaded", format!("{ctx}: the reloaded client has another user id"), replay.clone());
                failed = true;
            }
            let mut a: Vec<_> = reloaded.towers.iter().map(|(k, v)| (k.to_vec(), format!("{v:?}"))).collect();
            let mut b: Vec<_> = loaded.iter().map(|(k, v)| (k.to_vec(), format!("{v:?}"))).collect();
            a.sort();
            b.sort();
            // HashSet debug order is not stable: compare through sorted summaries
            let norm = |v: &watchtower_plugin::TowerSummary| (v.net_addr.net_addr().to_string(), v.available_slots, v.subscription_expiry, v.status, v.pending_appointments.iter().map(|l| l.to_vec()).collect::<BTreeSet<_>>(), v.invalid_appointments.iter().map(|l| l.to_vec()).collect::<BTreeSet<_>>());
            let ra: BTreeMap<Vec<u8>, _> = reloaded.towers.iter().map(|(k, v)| (k.to_vec(), norm(v))).collect();
            let rb: BTreeMap<Vec<u8>, _> = loaded.iter().map(|(k, v)| (k.to_vec(), norm(v))).collect();
            if ra != rb {
                r.violation("C18:reload-differs", format!("{ctx}: a client restarted on the same data shows other towers / fields than what is persisted"), replay.clone());
                failed = true;
            }
            // towers with pending data are handed to the retry manager on start
            let mut announced = BTreeSet::new();
            while let Ok((id, _)) = rx2.try_recv() {
                announced.insert(id.to_vec());
            }
            let want_announced: BTreeSet<Vec<u8>> = model.iter().filter(|(_, m)| !m.pending.is_empty() && !m.misbehaving).map(|(t, _)| towers[*t].1.serialize().to_vec()).collect();
            if announced != want_announced {
                r.violation("C18:pending-not-resumed", format!("{ctx}: after a restart {} towers are queued for retry, {} have pending data", announced.len(), want_announced.len()), replay.clone());
                failed = true;
            }
            drop(reloaded);
            if failed {
                break;
            }
        }
        r.nontrivial(fnv(format!("{ops_done:?}").as_bytes()));
        r.count("operations", ops_done.len() as u64);
        r.sample(|| json!({"sequence": s, "towers": n_towers, "locators": n_loc, "ops": ops_done}));
        drop(client);
    }
    let _ = std::fs::remove_dir_all(&base);
}
