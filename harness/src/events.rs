//! The event log shared by SimChain, SimNode and the driver: every block download and every node
//! RPC with its verdict, in the order the tower issued them.

use bitcoin::{BlockHash, Txid};
use std::sync::{Arc, Mutex};

#[derive(Clone, Debug, PartialEq, Eq)]
pub enum Verdict {
    Accepted,
    AlreadyInMempool,
    /// RPC error with this code
    Code(i32),
    /// transport error (node unreachable)
    Transport,
    /// a reply that is not a JSON-RPC result/error the client understands
    Garbage,
}

#[derive(Clone, Debug)]
pub enum Ev {
    GetBlock { hash: BlockHash, height: u32 },
    SrcFault { idx: u64, what: String },
    Send { txid: Txid, verdict: Verdict },
    /// getrawtransaction: Some(true) = found in mempool, Some(false) = found confirmed, None = not found / error
    GetRaw { txid: Txid, found: Option<bool>, verdict: Verdict },
    OtherRpc { method: String },
    /// tower database content at this instant
    Snap(Box<crate::snap::Snap>),
}

#[derive(Clone, Default)]
pub struct EventLog(pub Arc<Mutex<Vec<Ev>>>);

impl EventLog {
    pub fn new() -> Self {
        Default::default()
    }
    pub fn push(&self, e: Ev) {
        self.0.lock().unwrap_or_else(|e| e.into_inner()).push(e);
    }
    pub fn len(&self) -> usize {
        self.0.lock().unwrap_or_else(|e| e.into_inner()).len()
    }
    pub fn since(&self, from: usize) -> Vec<Ev> {
        self.0.lock().unwrap_or_else(|e| e.into_inner())[from..].to_vec()
    }
    pub fn clear(&self) {
        self.0.lock().unwrap_or_else(|e| e.into_inner()).clear();
    }
}

/// Crash / trace point at an external boundary (node RPC, block download): goes through the same
/// observer as the hooks inside the tower, so the crash enumerator counts both kinds.
pub fn boundary(name: &str) {
    teos_common::verif::point(name);
}

/// Index of the operation the E1 driver is executing (usize::MAX while bootstrapping / between
/// operations); read by the crash-point recorder.
pub static CUR_OP: std::sync::atomic::AtomicUsize = std::sync::atomic::AtomicUsize::new(usize::MAX);
