//! Panic monitor: records every panic raised while tower / client code runs (message, location,
//! innermost repo function from the backtrace). Simulated crashes (a private payload) are ignored.

use std::sync::Mutex;

/// Payload used to simulate the process dying at a crash point.
pub struct CrashPayload(pub String);

#[derive(Clone, Debug)]
pub struct PanicRecord {
    pub message: String,
    pub location: String,
    /// innermost function of the repository on the stack (line-number free)
    pub function: String,
    pub thread: String,
}

static RECORDS: Mutex<Vec<PanicRecord>> = Mutex::new(Vec::new());

pub fn install() {
    std::panic::set_hook(Box::new(|info| {
        if info.payload().downcast_ref::<CrashPayload>().is_some() || info.payload().downcast_ref::<crate::sched::SchedAbort>().is_some() {
            return;
        }
        let message = if let Some(s) = info.payload().downcast_ref::<&str>() {
            s.to_string()
        } else if let Some(s) = info.payload().downcast_ref::<String>() {
            s.clone()
        } else {
            "<non-string payload>".to_string()
        };
        let location = info.location().map(|l| format!("{}:{}", l.file(), l.line())).unwrap_or_default();
        let bt = std::backtrace::Backtrace::force_capture().to_string();
        let mut function = String::from("?");
        for line in bt.lines() {
            let l = line.trim();
            // frames look like "12: teos::watcher::Watcher::store_triggered_appointment"
            if let Some(pos) = l.find(": ") {
                let f = &l[pos + 2..];
                if (f.starts_with("teos::") || f.starts_with("teos_common::") || f.starts_with("watchtower_plugin::") || f.starts_with("<teos")) && !f.contains("verif") {
                    function = f.split("::{{closure}}").next().unwrap_or(f).to_string();
                    // strip hash suffix
                    if let Some(p) = function.rfind("::h") {
                        if function.len() - p == 19 {
                            function.truncate(p);
                        }
                    }
                    break;
                }
            }
        }
        let rec = PanicRecord { message, location, function, thread: std::thread::current().name().unwrap_or("?").to_string() };
        RECORDS.lock().unwrap_or_else(|e| e.into_inner()).push(rec);
    }));
}

pub fn take() -> Vec<PanicRecord> {
    std::mem::take(&mut *RECORDS.lock().unwrap_or_else(|e| e.into_inner()))
}

/// A short, stable class for a panic message (no addresses / ids / numbers).
pub fn message_class(m: &str) -> String {
    let mut s: String = m.chars().map(|c| if c.is_ascii_digit() { '#' } else { c }).collect();
    while s.contains("##") {
        s = s.replace("##", "#");
    }
    s.chars().take(90).collect()
}
