//! The simulated outside world of one case: chain + node + actors (users, channels, appointment
//! versions), and the plain-data operations a case consists of.

use crate::chain::{lock, ChainState, SimChain};
use crate::events::EventLog;
use crate::gen;
use crate::node::{Script, SimNode};
use crate::rng::Rng;
use bitcoin::consensus;
use bitcoin::secp256k1::{PublicKey, SecretKey};
use bitcoin::{Transaction, Txid};
use serde_json::{json, Value};
use std::collections::HashSet;
use std::sync::{Arc, Mutex};
use teos_common::cryptography;

#[derive(Clone, Debug)]
pub struct Chan {
    pub dispute: Transaction,
    pub dtxid: Txid,
    pub locator: Vec<u8>,
}

#[derive(Clone, Copy, Debug, PartialEq, Eq)]
pub enum BlobKind {
    /// encrypt(penalty, dispute id)
    Valid,
    /// random bytes
    Garbage,
    /// authenticates under the dispute id but the plaintext is not a transaction
    AuthNotTx,
    /// authenticates, plaintext is a transaction followed by trailing bytes
    TxTrailing,
    /// a valid blob for another channel's dispute
    OtherChan,
    Empty,
}

#[derive(Clone, Debug)]
pub struct Version {
    pub chan: usize,
    pub kind: BlobKind,
    pub blob: Vec<u8>,
    pub tsd: u32,
    /// what the blob decrypts to under the channel's dispute id (known by construction)
    pub penalty: Option<Transaction>,
}

impl Version {
    pub fn cost(&self) -> u32 {
        std::cmp::max(1, ((self.blob.len() + 2047) / 2048) as u32)
    }
    pub fn msg(&self, chans: &[Chan]) -> Vec<u8> {
        let mut m = chans[self.chan].locator.clone();
        m.extend(&self.blob);
        m.extend(self.tsd.to_be_bytes());
        m
    }
}

#[derive(Clone, Copy, Debug, PartialEq, Eq)]
pub enum Signer {
    User(usize),
    Outsider,
}

#[derive(Clone, Copy, Debug, PartialEq, Eq)]
pub enum SigKind {
    Good,
    /// a valid signature by the signer, but over a different message
    OtherMessage,
    Truncated,
    CharFlip,
    NotZbase,
    Empty,
}

#[derive(Clone, Debug, PartialEq, Eq)]
pub enum TxRef {
    Dispute(usize),
    Penalty(usize),
    Filler(u64),
}

#[derive(Clone, Debug)]
pub enum Op {
    Register { user: usize },
    RegisterBadId { len: usize },
    /// `good` = the signature is a correct one, by `signer`, over exactly this request's message
    Add { signer: Signer, ver: usize, sig: String, good: bool },
    GetAppt { signer: Signer, chan: usize, sig: String, good: bool },
    GetSub { signer: Signer, sig: String, good: bool },
    /// mine blocks on the node's chain (the tower learns about them at the next poll)
    Mine { blocks: Vec<Vec<TxRef>> },
    Poll,
    Reorg { depth: usize, blocks: Vec<Vec<TxRef>> },
    Script { tx: TxRef, script: Option<(i32, bool)> },
    TxIndex { on: bool },
    Restart,
}

impl Op {
    pub fn to_json(&self) -> Value {
        json!(format!("{self:?}"))
    }
}

pub struct World {
    pub chain: Arc<Mutex<ChainState>>,
    pub node: SimNode,
    pub log: EventLog,
    pub users: Vec<(SecretKey, PublicKey)>,
    pub outsider: (SecretKey, PublicKey),
    pub chans: Vec<Chan>,
    pub versions: Vec<Version>,
    /// every transaction confirmed on the node's active chain (harness bookkeeping for causality)
    pub filler_seq: u64,
}

impl World {
    pub fn new(rng: &mut Rng, n_users: usize, n_chans: usize, start_height: u32) -> World {
        let log = EventLog::new();
        let mut cs = ChainState::new();
        for _ in 0..start_height {
            cs.mine(vec![]);
        }
        let chain = Arc::new(Mutex::new(cs));
        let node = SimNode::new(chain.clone(), log.clone());
        let users = (0..n_users).map(|_| gen::keypair(rng)).collect();
        let outsider = gen::keypair(rng);
        let mut chans = Vec::new();
        for _ in 0..n_chans {
            let dispute = gen::small_tx(rng);
            let dtxid = dispute.compute_txid();
            chans.push(Chan { locator: AsRef::<[u8]>::as_ref(&dtxid)[..16].to_vec(), dispute, dtxid });
        }
        World { chain, node, log, users, outsider, chans, versions: Vec::new(), filler_seq: 0 }
    }

    /// Deep copy (own chain, node and event log): an identical world to run another execution in.
    pub fn fork(&self) -> World {
        let log = EventLog::new();
        let chain = Arc::new(Mutex::new(lock(&self.chain).clone()));
        let node = SimNode::new(chain.clone(), log.clone());
        {
            let src = lock(&self.node.state);
            let mut dst = lock(&node.state);
            dst.mempool = src.mempool.clone();
            dst.conflicted = src.conflicted.clone();
            dst.overrides = src.overrides.clone();
            dst.parent = src.parent.clone();
            dst.txindex = src.txindex;
        }
        World { chain, node, log, users: self.users.clone(), outsider: self.outsider, chans: self.chans.clone(), versions: self.versions.clone(), filler_seq: self.filler_seq }
    }

    pub fn simchain(&self) -> SimChain {
        SimChain { state: self.chain.clone(), log: self.log.clone(), snap_path: None, armed: std::sync::atomic::AtomicBool::new(false), on_boundary: None, down: self.node.down.clone() }
    }

    /// Builds a new appointment version for `chan` whose blob has (about) `target_len` bytes.
    pub fn new_version(&mut self, rng: &mut Rng, chan: usize, kind: BlobKind, target_len: usize) -> usize {
        let dtxid = self.chans[chan].dtxid;
        let tsd = match rng.below(6) {
            0 => 0,
            1 => u32::MAX,
            2 => 1,
            _ => rng.next_u32() % 2000,
        };
        let (blob, penalty) = match kind {
            BlobKind::Valid => {
                // aim at target_len: blob = ser(P) + 16
                let mut pad = target_len.saturating_sub(16 + 83);
                let mut tx = gen::spend_of(rng, &dtxid, pad);
                for _ in 0..3 {
                    let l = consensus::serialize(&tx).len() + 16;
                    if l == target_len || target_len < 16 + 83 {
                        break;
                    }
                    pad = (pad as i64 + target_len as i64 - l as i64).max(0) as usize;
                    tx = gen::spend_of(rng, &dtxid, pad);
                }
                (cryptography::encrypt(&tx, &dtxid).unwrap(), Some(tx))
            }
            BlobKind::Garbage => (rng.bytes(target_len.max(1)), None),
            BlobKind::AuthNotTx => (gen::encrypt_bytes(&rng.bytes(target_len.saturating_sub(16).max(1)), &dtxid), None),
            BlobKind::TxTrailing => {
                let tx = gen::spend_of(rng, &dtxid, 0);
                let mut ser = consensus::serialize(&tx);
                let extra = 1 + rng.usize(4);
                ser.extend(rng.bytes(extra));
                (gen::encrypt_bytes(&ser, &dtxid), None)
            }
            BlobKind::OtherChan => {
                let other = (chan + 1 + rng.usize(self.chans.len() - 1)) % self.chans.len();
                let od = self.chans[other].dtxid;
                let tx = gen::spend_of(rng, &od, 0);
                (cryptography::encrypt(&tx, &od).unwrap(), None)
            }
            BlobKind::Empty => (vec![], None),
        };
        if let Some(p) = &penalty {
            lock(&self.node.state).parent.insert(p.compute_txid(), dtxid);
        }
        self.versions.push(Version { chan, kind, blob, tsd, penalty });
        self.versions.len() - 1
    }

    /// A copy of version `v` (same blob: another user sending the very same appointment).
    pub fn key_of(&self, s: Signer) -> (SecretKey, PublicKey) {
        match s {
            Signer::User(i) => self.users[i],
            Signer::Outsider => self.outsider,
        }
    }

    pub fn sign(&self, rng: &mut Rng, signer: Signer, msg: &[u8], kind: SigKind) -> String {
        let (sk, _) = self.key_of(signer);
        match kind {
            SigKind::Good => cryptography::sign(msg, &sk),
            SigKind::OtherMessage => {
                let mut m = msg.to_vec();
                match rng.below(3) {
                    0 => m.push(0),
                    1 if !m.is_empty() => {
                        let i = rng.usize(m.len());
                        m[i] ^= 1 << rng.usize(8);
                    }
                    _ => m = b"get subscription info ".to_vec(),
                }
                cryptography::sign(&m, &sk)
            }
            SigKind::Truncated => {
                let s = cryptography::sign(msg, &sk);
                let cut = rng.usize(s.len());
                s[..cut].to_string()
            }
            SigKind::CharFlip => {
                const ZB: &[u8] = b"ybndrfg8ejkmcpqxot1uwisza345h769";
                let mut s = cryptography::sign(msg, &sk).into_bytes();
                let pos = rng.usize(s.len());
                let cur = ZB.iter().position(|c| *c == s[pos]).unwrap();
                s[pos] = ZB[(cur + 1 + rng.usize(31)) % 32];
                String::from_utf8(s).unwrap()
            }
            SigKind::NotZbase => "this is not zbase32: l0vI!".to_string(),
            SigKind::Empty => String::new(),
        }
    }

    pub fn resolve(&self, r: &TxRef, rng_salt: u64) -> Transaction {
        match r {
            TxRef::Dispute(c) => self.chans[*c].dispute.clone(),
            TxRef::Penalty(v) => self.versions[*v].penalty.clone().expect("penalty of a valid version"),
            TxRef::Filler(n) => {
                let mut rng = Rng::stream(0xF111, *n, rng_salt);
                gen::small_tx(&mut rng)
            }
        }
    }

    pub fn confirmed_txids(&self) -> HashSet<Txid> {
        let cs = lock(&self.chain);
        let mut s = HashSet::new();
        // only the part of the chain the harness itself mined transactions into
        for bh in cs.active.iter().skip(1) {
            for t in &cs.blocks[bh].block.txdata {
                s.insert(t.compute_txid());
            }
        }
        s
    }

    /// Mines the blocks on the node's chain and updates the mempool.
    pub fn mine(&self, blocks: &[Vec<TxRef>], salt: u64) {
        for b in blocks {
            let txs: Vec<Transaction> = b.iter().map(|r| self.resolve(r, salt)).collect();
            let ids: Vec<Txid> = txs.iter().map(|t| t.compute_txid()).collect();
            lock(&self.chain).mine(txs);
            self.node.on_block_mined(&ids);
        }
    }

    pub fn reorg(&self, depth: usize, blocks: &[Vec<TxRef>], salt: u64) {
        let resolved: Vec<Vec<Transaction>> = blocks.iter().map(|b| b.iter().map(|r| self.resolve(r, salt)).collect()).collect();
        let mut orphaned = Vec::new();
        {
            let mut cs = lock(&self.chain);
            let n = cs.active.len();
            for bh in &cs.active[n - depth..] {
                orphaned.extend(cs.blocks[bh].block.txdata.iter().skip(1).cloned());
            }
            cs.reorg(depth, resolved.clone());
        }
        let mined: Vec<Txid> = resolved.iter().flatten().map(|t| t.compute_txid()).collect();
        self.node.on_block_mined(&mined);
        self.node.on_reorg(orphaned);
    }

    /// A reorg whose new branch need not have more work (see `ChainState::reorg_any`).
    pub fn reorg_any(&self, depth: usize, blocks: &[Vec<TxRef>], salt: u64) {
        let resolved: Vec<Vec<Transaction>> = blocks.iter().map(|b| b.iter().map(|r| self.resolve(r, salt)).collect()).collect();
        let mut orphaned = Vec::new();
        {
            let mut cs = lock(&self.chain);
            let n = cs.active.len();
            for bh in &cs.active[n - depth..] {
                orphaned.extend(cs.blocks[bh].block.txdata.iter().skip(1).cloned());
            }
            cs.reorg_any(depth, resolved.clone());
        }
        let mined: Vec<Txid> = resolved.iter().flatten().map(|t| t.compute_txid()).collect();
        self.node.on_block_mined(&mined);
        self.node.on_reorg(orphaned);
    }

    pub fn set_script(&self, txid: Txid, script: Option<(i32, bool)>) {
        let mut st = lock(&self.node.state);
        match script {
            None => {
                st.overrides.remove(&txid);
            }
            Some((_, true)) => {
                st.overrides.insert(txid, Script::Garbage);
            }
            Some((0, false)) => {
                st.overrides.insert(txid, Script::Accept);
            }
            Some((c, false)) => {
                st.overrides.insert(txid, Script::Code(c));
            }
        }
    }
}
