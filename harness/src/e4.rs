//! E4 `clientdrv`: the real `watchtower-client` binary driven over its stdin/stdout plugin protocol
//! against scripted fake towers (HTTP servers that can sign valid receipts with a known tower key, or
//! misbehave per script). Kills are real SIGKILLs / aborts at hooked commit points. Observation: RPC
//! answers, `log` notifications, stderr (panic text), the towers' timestamped request logs, the
//! retry-loop trace file and the client's sqlite file opened read-only.

use crate::gen;
use crate::pure_c18::dump;
use crate::report::{PropReport, Report};
use crate::rng::{fnv, Rng};
use bitcoin::consensus;
use bitcoin::secp256k1::{PublicKey, SecretKey};
use bitcoin::{Transaction, Txid};
use serde_json::{json, Value};
use std::collections::{BTreeMap, BTreeSet, HashMap, VecDeque};
use std::path::{Path, PathBuf};
use std::process::Stdio;
use std::sync::{Arc, Mutex};
use std::time::{Duration, Instant};
use teos_common::cryptography;
use teos_common::receipts::{AppointmentReceipt, RegistrationReceipt};
use teos_common::{TowerId, UserId};
use tokio::io::{AsyncReadExt, AsyncWriteExt};
use tokio::sync::oneshot;

// ------------------------------------------------------------------------------------------------
// fake tower

#[derive(Clone, Debug, PartialEq)]
pub enum Beh {
    Accept,
    /// 401 + error code 7
    SubscriptionError,
    /// 400 + this documented error code
    ApiError(u8),
    NonJson,
    WrongShape,
    /// a well-formed acknowledgement signed by another key
    WrongSig,
    /// a well-formed acknowledgement whose signature string cannot be decoded / recovered
    MalformedSig,
    Empty,
    Huge,
    /// HTTP 500 with a JSON error object
    ServerError,
    /// a valid reply whose JSON was mutated (register / add): (field, mutation)
    Mutated(String, String),
    /// accept the connection and close it without answering
    Hangup,
    /// a valid acceptance whose body breaks off half-way (the tower dies while answering)
    CutBody,
}

#[derive(Clone, Debug)]
pub struct ReqLog {
    pub t: Instant,
    pub endpoint: String,
    pub locator: Option<String>,
    pub beh: String,
}

pub struct TowerState {
    pub up: bool,
    pub register: VecDeque<Beh>,
    pub add: VecDeque<Beh>,
    pub default_add: Beh,
    pub default_register: Beh,
    pub log: Vec<ReqLog>,
    pub slots: u32,
    pub expiry: u32,
    /// kill the client when the n-th add_appointment request arrives: (n, before_answer)
    pub kill_at: Option<(usize, bool)>,
    pub kill_fired: bool,
    /// every add_appointment is answered this much later (requests overlap)
    pub add_delay_ms: u64,
    pub adds_seen: usize,
    /// accepted (locator, user signature) pairs
    pub accepted: Vec<(String, String)>,
}

pub struct FakeTower {
    pub sk: SecretKey,
    pub id: TowerId,
    pub port: u16,
    pub state: Arc<Mutex<TowerState>>,
    pub kill_signal: Arc<tokio::sync::Notify>,
}

fn http_reply(status: u16, body: &[u8], ctype: &str) -> Vec<u8> {
    let reason = match status {
        200 => "OK",
        400 => "Bad Request",
        401 => "Unauthorized",
        404 => "Not Found",
        500 => "Internal Server Error",
        503 => "Service Unavailable",
        _ => "X",
    };
    let mut v = format!("HTTP/1.1 {status} {reason}\r\nContent-Type: {ctype}\r\nContent-Length: {}\r\nConnection: close\r\n\r\n", body.len()).into_bytes();
    v.extend_from_slice(body);
    v
}

fn mutate_field(v: &mut Value, field: &str, how: &str) {
    if let Some(o) = v.as_object_mut() {
        match how {
            "drop" => {
                o.remove(field);
            }
            "null" => {
                o.insert(field.into(), Value::Null);
            }
            "string" => {
                o.insert(field.into(), json!("x"));
            }
            "number" => {
                o.insert(field.into(), json!(7));
            }
            "negative" => {
                o.insert(field.into(), json!(-1));
            }
            "huge" => {
                o.insert(field.into(), json!(u64::MAX));
            }
            "array" => {
                o.insert(field.into(), json!([1]));
            }
            "empty" => {
                o.insert(field.into(), json!(""));
            }
            "zero" => {
                o.insert(field.into(), json!(0));
            }
            "truncate" => {
                if let Some(s) = o.get(field).and_then(|x| x.as_str()).map(|s| s.to_string()) {
                    o.insert(field.into(), json!(s[..s.len() / 2].to_string()));
                }
            }
            "odd" => {
                if let Some(s) = o.get(field).and_then(|x| x.as_str()).map(|s| s.to_string()) {
                    o.insert(field.into(), json!(format!("{s}a")));
                }
            }
            _ => {}
        }
    }
}

impl FakeTower {
    pub async fn start(rng: &mut Rng) -> Arc<FakeTower> {
        let (sk, pk) = gen::keypair(rng);
        let listener = tokio::net::TcpListener::bind("127.0.0.1:0").await.unwrap();
        let port = listener.local_addr().unwrap().port();
        let state = Arc::new(Mutex::new(TowerState {
            up: true,
            register: VecDeque::new(),
            add: VecDeque::new(),
            default_add: Beh::Accept,
            default_register: Beh::Accept,
            log: vec![],
            slots: 100,
            expiry: 1000,
            kill_at: None,
            kill_fired: false,
            add_delay_ms: 0,
            adds_seen: 0,
            accepted: vec![],
        }));
        let t = Arc::new(FakeTower { sk, id: TowerId(pk), port, state, kill_signal: Arc::new(tokio::sync::Notify::new()) });
        let t2 = t.clone();
        tokio::spawn(async move { t2.serve(Some(listener)).await });
        t
    }

    pub fn set_up(&self, up: bool) {
        self.state.lock().unwrap().up = up;
    }

    async fn serve(self: Arc<Self>, mut listener: Option<tokio::net::TcpListener>) {
        // While the tower is down its port stays *bound* by a socket that does not listen: connections are refused as
        // for a dead process, but the number cannot be handed to anybody else. (Scenarios run in parallel and towers
        // listen on ephemeral ports: a port released by a tower that was down was now and then given to another
        // scenario's tower, whose log then showed requests of a client that was not its own.)
        let mut placeholder: Option<tokio::net::TcpSocket> = None;
        let addr: std::net::SocketAddr = ([127, 0, 0, 1], self.port).into();
        loop {
            let up = self.state.lock().unwrap().up;
            if !up {
                // a down tower refuses connections: stop listening
                if listener.is_some() {
                    listener = None;
                }
                if placeholder.is_none() {
                    if let Ok(sock) = tokio::net::TcpSocket::new_v4() {
                        let _ = sock.set_reuseaddr(true);
                        if sock.bind(addr).is_ok() {
                            placeholder = Some(sock);
                        }
                    }
                }
                tokio::time::sleep(Duration::from_millis(15)).await;
                continue;
            }
            if listener.is_none() {
                // the placeholder becomes the listener again (no moment at which the port is free)
                let sock = match placeholder.take() {
                    Some(s) => Some(s),
                    None => tokio::net::TcpSocket::new_v4().ok().and_then(|s| {
                        let _ = s.set_reuseaddr(true);
                        s.bind(addr).ok().map(|_| s)
                    }),
                };
                match sock.map(|s| s.listen(128)) {
                    Some(Ok(l)) => listener = Some(l),
                    _ => {
                        tokio::time::sleep(Duration::from_millis(20)).await;
                        continue;
                    }
                }
            }
            let l = listener.as_ref().unwrap();
            let acc = tokio::time::timeout(Duration::from_millis(25), l.accept()).await;
            if let Ok(Ok((sock, _))) = acc {
                let me = self.clone();
                tokio::spawn(async move { me.handle(sock).await });
            }
        }
    }

    async fn handle(self: Arc<Self>, mut sock: tokio::net::TcpStream) {
        let mut buf = Vec::new();
        let mut tmp = [0u8; 4096];
        let (head_end, clen) = loop {
            match tokio::time::timeout(Duration::from_secs(5), sock.read(&mut tmp)).await {
                Ok(Ok(0)) | Ok(Err(_)) | Err(_) => return,
                Ok(Ok(n)) => buf.extend_from_slice(&tmp[..n]),
            }
            if let Some(p) = buf.windows(4).position(|w| w == b"\r\n\r\n") {
                let head = String::from_utf8_lossy(&buf[..p]).to_ascii_lowercase();
                let clen = head.lines().find_map(|l| l.strip_prefix("content-length:").map(|v| v.trim().parse::<usize>().unwrap_or(0))).unwrap_or(0);
                break (p + 4, clen);
            }
        };
        while buf.len() < head_end + clen {
            match tokio::time::timeout(Duration::from_secs(5), sock.read(&mut tmp)).await {
                Ok(Ok(0)) | Ok(Err(_)) | Err(_) => break,
                Ok(Ok(n)) => buf.extend_from_slice(&tmp[..n]),
            }
        }
        let head = String::from_utf8_lossy(&buf[..head_end]).to_string();
        let path = head.split_whitespace().nth(1).unwrap_or("/").to_string();
        let body: Value = serde_json::from_slice(&buf[head_end..]).unwrap_or(Value::Null);
        let reply = match path.as_str() {
            "/register" => self.on_register(&body),
            "/add_appointment" => match self.on_add(&body).await {
                Some(r) => r,
                None => return, // hang up without answering
            },
            "/ping" => http_reply(200, b"", "text/plain"),
            _ => http_reply(404, b"{}", "application/json"),
        };
        let _ = sock.write_all(&reply).await;
        let _ = sock.shutdown().await;
    }

    fn on_register(&self, body: &Value) -> Vec<u8> {
        let mut st = self.state.lock().unwrap();
        let beh = st.register.pop_front().unwrap_or_else(|| st.default_register.clone());
        st.log.push(ReqLog { t: Instant::now(), endpoint: "register".into(), locator: None, beh: format!("{beh:?}") });
        let uid = body.get("user_id").and_then(|x| x.as_str()).unwrap_or("").to_string();
        let user = hex::decode(&uid).ok().and_then(|b| UserId::from_slice(&b).ok());
        let valid = |st: &mut TowerState, sk: &SecretKey| -> Value {
            st.slots += 100;
            st.expiry += 1000;
            let user = user.unwrap_or(UserId(PublicKey::from_secret_key(&bitcoin::secp256k1::Secp256k1::new(), sk)));
            let mut r = RegistrationReceipt::new(user, st.slots, 10, st.expiry);
            r.sign(sk);
            json!({"user_id": uid, "available_slots": st.slots, "subscription_start": 10, "subscription_expiry": st.expiry, "subscription_signature": r.signature().unwrap()})
        };
        match beh {
            Beh::Accept => http_reply(200, valid(&mut st, &self.sk).to_string().as_bytes(), "application/json"),
            Beh::WrongSig => {
                let mut rng = Rng::new(st.log.len() as u64 + 77);
                let (osk, _) = gen::keypair(&mut rng);
                http_reply(200, valid(&mut st, &osk).to_string().as_bytes(), "application/json")
            }
            Beh::MalformedSig => {
                let mut v = valid(&mut st, &self.sk);
                v["subscription_signature"] = json!("not-a-signature!");
                http_reply(200, v.to_string().as_bytes(), "application/json")
            }
            Beh::Mutated(field, how) => {
                let mut v = valid(&mut st, &self.sk);
                if how == "not-extending" {
                    // a correctly signed receipt that does not extend the previous subscription
                    let user = user.unwrap();
                    let (slots, expiry) = match field.as_str() {
                        "expiry" => (st.slots, st.expiry - 1000),
                        // more slots, but an expiry that goes backwards
                        // (`valid` has already moved the tower's terms one step up: st = previous + (100, 1000))
                        "expiry-down-slots-up" => (st.slots + 100, st.expiry - 1500),
                        // a later expiry, but fewer slots
                        "slots-down-expiry-up" => (st.slots - 150, st.expiry + 1000),
                        _ => (st.slots - 100, st.expiry),
                    };
                    st.slots -= 100;
                    st.expiry -= 1000;
                    let mut r = RegistrationReceipt::new(user, slots, 10, expiry);
                    r.sign(&self.sk);
                    v = json!({"user_id": uid, "available_slots": slots, "subscription_start": 10, "subscription_expiry": expiry, "subscription_signature": r.signature().unwrap()});
                } else {
                    mutate_field(&mut v, &field, &how);
                    st.slots -= 100;
                    st.expiry -= 1000;
                }
                http_reply(200, v.to_string().as_bytes(), "application/json")
            }
            other => generic_reply(&other),
        }
    }

    async fn on_add(&self, body: &Value) -> Option<Vec<u8>> {
        let (beh, kill_before, kill_after) = {
            let mut st = self.state.lock().unwrap();
            st.adds_seen += 1;
            let beh = st.add.pop_front().unwrap_or_else(|| st.default_add.clone());
            let loc = body.get("appointment").and_then(|a| a.get("locator")).and_then(|x| x.as_str()).map(|s| s.to_string());
            st.log.push(ReqLog { t: Instant::now(), endpoint: "add_appointment".into(), locator: loc, beh: format!("{beh:?}") });
            let (kb, ka) = match st.kill_at {
                Some((n, before)) if n == st.adds_seen && !st.kill_fired => {
                    st.kill_fired = true;
                    (before, !before)
                }
                _ => (false, false),
            };
            (beh, kb, ka)
        };
        if kill_before {
            self.kill_signal.notify_one();
            tokio::time::sleep(Duration::from_millis(150)).await;
        }
        let delay = self.state.lock().unwrap().add_delay_ms;
        if delay > 0 {
            tokio::time::sleep(Duration::from_millis(delay)).await;
        }
        let user_sig = body.get("signature").and_then(|x| x.as_str()).unwrap_or("").to_string();
        let loc = body.get("appointment").and_then(|a| a.get("locator")).and_then(|x| x.as_str()).unwrap_or("").to_string();
        let valid = |sk: &SecretKey, slots: u32, expiry: u32| -> Value {
            let mut r = AppointmentReceipt::new(user_sig.clone(), 100);
            r.sign(sk);
            json!({"locator": loc, "start_block": 100, "signature": r.signature().unwrap(), "available_slots": slots, "subscription_expiry": expiry})
        };
        let (slots, expiry) = {
            let st = self.state.lock().unwrap();
            (st.slots.saturating_sub(1), st.expiry)
        };
        let reply = match beh {
            Beh::Accept => {
                let mut st = self.state.lock().unwrap();
                st.slots = slots;
                st.accepted.push((loc.clone(), user_sig.clone()));
                http_reply(200, valid(&self.sk, slots, expiry).to_string().as_bytes(), "application/json")
            }
            Beh::WrongSig => {
                let mut rng = Rng::new(fnv(loc.as_bytes()));
                let (osk, _) = gen::keypair(&mut rng);
                http_reply(200, valid(&osk, slots, expiry).to_string().as_bytes(), "application/json")
            }
            Beh::MalformedSig => {
                let mut v = valid(&self.sk, slots, expiry);
                v["signature"] = json!("zzzz not zbase32 !!");
                http_reply(200, v.to_string().as_bytes(), "application/json")
            }
            Beh::Mutated(field, how) => {
                let mut v = valid(&self.sk, slots, expiry);
                mutate_field(&mut v, &field, &how);
                http_reply(200, v.to_string().as_bytes(), "application/json")
            }
            Beh::Hangup => return None,
            Beh::CutBody => {
                // the tower took the appointment on (it will say so when asked again) but its answer never fully arrives
                let mut st = self.state.lock().unwrap();
                st.slots = slots;
                st.accepted.push((loc.clone(), user_sig.clone()));
                let full = http_reply(200, valid(&self.sk, slots, expiry).to_string().as_bytes(), "application/json");
                let body_start = full.windows(4).position(|w| w == b"\r\n\r\n").map(|p| p + 4).unwrap_or(0);
                let keep = body_start + (full.len() - body_start) / 2;
                full[..keep].to_vec()
            }
            other => generic_reply(&other),
        };
        if kill_after {
            self.kill_signal.notify_one();
        }
        Some(reply)
    }
}

fn generic_reply(beh: &Beh) -> Vec<u8> {
    match beh {
        Beh::SubscriptionError => http_reply(401, json!({"error": "Your subscription expired at 5", "error_code": 7}).to_string().as_bytes(), "application/json"),
        Beh::ApiError(c) => http_reply(400, json!({"error": "rejected", "error_code": c}).to_string().as_bytes(), "application/json"),
        Beh::NonJson => http_reply(200, b"<html><body>It works!</body></html>", "text/html"),
        Beh::WrongShape => http_reply(200, json!({"foo": 1, "bar": [1, 2]}).to_string().as_bytes(), "application/json"),
        Beh::Empty => http_reply(200, b"", "application/json"),
        Beh::Huge => http_reply(200, format!("{{\"x\":\"{}\"}}", "A".repeat(3_000_000)).as_bytes(), "application/json"),
        Beh::ServerError => http_reply(500, json!({"error": "boom", "error_code": 255}).to_string().as_bytes(), "application/json"),
        _ => http_reply(200, b"{}", "application/json"),
    }
}

// ------------------------------------------------------------------------------------------------
// plugin process driver

pub struct Plugin {
    child: tokio::process::Child,
    stdin: tokio::process::ChildStdin,
    pending: Arc<Mutex<HashMap<u64, oneshot::Sender<Value>>>>,
    pub logs: Arc<Mutex<Vec<String>>>,
    pub stderr: Arc<Mutex<String>>,
    next_id: u64,
    pub dir: PathBuf,
    pub trace: PathBuf,
}

#[derive(Debug)]
pub enum CallErr {
    Rpc(Value),
    Timeout,
    Dead,
}

#[derive(Clone)]
pub struct PluginOpts {
    pub max_retry_time: u64,
    pub auto_retry_delay: u64,
    pub max_interval: u64,
    pub abort_at: Option<usize>,
}

pub fn client_bin() -> PathBuf {
    PathBuf::from(std::env::var("TV_BINS").unwrap_or_else(|_| "/verif/target/bins/release".into())).join("watchtower-client")
}

impl Plugin {
    pub async fn start(dir: &Path, opts: &PluginOpts) -> Result<Plugin, String> {
        std::fs::create_dir_all(dir).map_err(|e| e.to_string())?;
        let trace = dir.join("trace.log");
        {
            use std::io::Write;
            if let Ok(mut f) = std::fs::OpenOptions::new().create(true).append(true).open(&trace) {
                let _ = writeln!(f, "0 process.start");
            }
        }
        let mut cmd = tokio::process::Command::new(client_bin());
        cmd.env("TOWERS_DATA_DIR", dir).env("TEOS_VERIF_TRACE", &trace).env("RUST_BACKTRACE", "0").stdin(Stdio::piped()).stdout(Stdio::piped()).stderr(Stdio::piped()).kill_on_drop(true);
        match opts.abort_at {
            Some(n) => {
                cmd.env("TEOS_VERIF_ABORT_AT", n.to_string());
            }
            None => {
                cmd.env_remove("TEOS_VERIF_ABORT_AT");
            }
        }
        let mut child = cmd.spawn().map_err(|e| format!("cannot start {}: {e}", client_bin().display()))?;
        let stdin = child.stdin.take().unwrap();
        let mut stdout = child.stdout.take().unwrap();
        let mut stderr_pipe = child.stderr.take().unwrap();
        let pending: Arc<Mutex<HashMap<u64, oneshot::Sender<Value>>>> = Arc::new(Mutex::new(HashMap::new()));
        let logs = Arc::new(Mutex::new(Vec::new()));
        let stderr = Arc::new(Mutex::new(String::new()));
        {
            let pending = pending.clone();
            let logs = logs.clone();
            tokio::spawn(async move {
                let mut buf: Vec<u8> = Vec::new();
                let mut tmp = [0u8; 8192];
                loop {
                    match stdout.read(&mut tmp).await {
                        Ok(0) | Err(_) => break,
                        Ok(n) => buf.extend_from_slice(&tmp[..n]),
                    }
                    while let Some(p) = buf.windows(2).position(|w| w == b"\n\n") {
                        let msg: Vec<u8> = buf.drain(..p + 2).collect();
                        if let Ok(v) = serde_json::from_slice::<Value>(&msg[..msg.len() - 2]) {
                            if let Some(id) = v.get("id").and_then(|i| i.as_u64()) {
                                if let Some(tx) = pending.lock().unwrap().remove(&id) {
                                    let _ = tx.send(v);
                                }
                            } else if v.get("method").and_then(|m| m.as_str()) == Some("log") {
                                logs.lock().unwrap().push(v["params"]["message"].as_str().unwrap_or("").to_string());
                            }
                        }
                    }
                }
                // process gone: fail everybody waiting
                pending.lock().unwrap().clear();
            });
        }
        {
            let stderr = stderr.clone();
            tokio::spawn(async move {
                let mut tmp = [0u8; 4096];
                loop {
                    match stderr_pipe.read(&mut tmp).await {
                        Ok(0) | Err(_) => break,
                        Ok(n) => stderr.lock().unwrap().push_str(&String::from_utf8_lossy(&tmp[..n])),
                    }
                }
            });
        }
        let mut p = Plugin { child, stdin, pending, logs, stderr, next_id: 1, dir: dir.to_path_buf(), trace };
        p.call("getmanifest", json!({"allow-deprecated-apis": false}), 20).await.map_err(|e| format!("getmanifest: {e:?}"))?;
        p.call(
            "init",
            json!({"options": {"watchtower-port": 9814, "watchtower-max-retry-time": opts.max_retry_time, "watchtower-auto-retry-delay": opts.auto_retry_delay, "dev-watchtower-max-retry-interval": opts.max_interval},
                   "configuration": {"lightning-dir": dir.to_string_lossy(), "rpc-file": "lightning-rpc", "startup": true, "network": "regtest", "feature_set": {}}}),
            20,
        )
        .await
        .map_err(|e| format!("init: {e:?}"))?;
        Ok(p)
    }

    pub async fn call(&mut self, method: &str, params: Value, timeout_s: u64) -> Result<Value, CallErr> {
        let id = self.next_id;
        self.next_id += 1;
        let (tx, rx) = oneshot::channel();
        self.pending.lock().unwrap().insert(id, tx);
        let msg = json!({"jsonrpc": "2.0", "id": id, "method": method, "params": params}).to_string() + "\n\n";
        if self.stdin.write_all(msg.as_bytes()).await.is_err() {
            return Err(CallErr::Dead);
        }
        let _ = self.stdin.flush().await;
        match tokio::time::timeout(Duration::from_secs(timeout_s), rx).await {
            Ok(Ok(v)) => {
                if let Some(e) = v.get("error") {
                    Err(CallErr::Rpc(e.clone()))
                } else {
                    Ok(v.get("result").cloned().unwrap_or(Value::Null))
                }
            }
            Ok(Err(_)) => Err(CallErr::Dead),
            Err(_) => {
                self.pending.lock().unwrap().remove(&id);
                if self.alive() {
                    Err(CallErr::Timeout)
                } else {
                    Err(CallErr::Dead)
                }
            }
        }
    }

    /// Writes all the requests, then waits for all the answers: the calls are in flight together.
    pub async fn call_many(&mut self, calls: Vec<(&str, Value)>, timeout_s: u64) -> Vec<Result<Value, CallErr>> {
        let mut rxs = Vec::new();
        for (method, params) in calls {
            let id = self.next_id;
            self.next_id += 1;
            let (tx, rx) = oneshot::channel();
            self.pending.lock().unwrap().insert(id, tx);
            let msg = json!({"jsonrpc": "2.0", "id": id, "method": method, "params": params}).to_string() + "\n\n";
            if self.stdin.write_all(msg.as_bytes()).await.is_err() {
                rxs.push((id, None));
                continue;
            }
            rxs.push((id, Some(rx)));
        }
        let _ = self.stdin.flush().await;
        let mut out = Vec::new();
        for (id, rx) in rxs {
            let r = match rx {
                None => Err(CallErr::Dead),
                Some(rx) => match tokio::time::timeout(Duration::from_secs(timeout_s), rx).await {
                    Ok(Ok(v)) => match v.get("error") {
                        Some(e) => Err(CallErr::Rpc(e.clone())),
                        None => Ok(v.get("result").cloned().unwrap_or(Value::Null)),
                    },
                    Ok(Err(_)) => Err(CallErr::Dead),
                    Err(_) => {
                        self.pending.lock().unwrap().remove(&id);
                        if self.alive() {
                            Err(CallErr::Timeout)
                        } else {
                            Err(CallErr::Dead)
                        }
                    }
                },
            };
            out.push(r);
        }
        out
    }

    pub fn alive(&mut self) -> bool {
        matches!(self.child.try_wait(), Ok(None))
    }

    pub async fn kill(&mut self) {
        let _ = self.child.start_kill();
        let _ = self.child.wait().await;
    }

    pub fn panic_text(&self) -> Option<String> {
        let s = self.stderr.lock().unwrap();
        s.find("panicked at").map(|p| s[p..].chars().take(300).collect())
    }

    pub async fn revoke(&mut self, rev: &Revocation, timeout_s: u64) -> Result<Value, CallErr> {
        self.call("commitment_revocation", json!({"commitment_txid": rev.txid.to_string(), "penalty_tx": hex::encode(consensus::serialize(&rev.penalty)), "channel_id": "ab".repeat(32), "commitnum": rev.n}), timeout_s).await
    }
}

#[derive(Clone)]
pub struct Revocation {
    pub txid: Txid,
    pub penalty: Transaction,
    pub n: u32,
    pub locator: String,
    pub blob: Vec<u8>,
}

pub fn revocation(rng: &mut Rng, n: u32) -> Revocation {
    let txid = gen::txid(rng);
    let pad = rng.usize(60);
    let penalty = gen::spend_of(rng, &txid, pad);
    let blob = cryptography::encrypt(&penalty, &txid).unwrap();
    Revocation { locator: hex::encode(&AsRef::<[u8]>::as_ref(&txid)[..16]), txid, penalty, n, blob }
}

// ------------------------------------------------------------------------------------------------
// durable-record oracle (C05)

pub struct Rows {
    pub receipts: BTreeMap<(String, String), (String, String, u32)>, // (locator, tower) -> (user sig, tower sig, start)
    pub pending: BTreeSet<(String, String)>,
    pub invalid: BTreeSet<(String, String)>,
    pub bodies: BTreeMap<String, (String, String)>, // locator -> (blob hex, tsd)
    pub proofs: BTreeSet<String>,                   // tower ids
    pub proof_details: BTreeMap<String, (String, String)>, // tower id -> (locator, recovered id)
    pub towers: BTreeSet<String>,
}

pub fn read_rows(dir: &Path) -> Option<Rows> {
    let p = dir.join("watchtowers_db.sql3");
    if !p.exists() {
        return None;
    }
    let d = dump(&p);
    let mut r = Rows { receipts: BTreeMap::new(), pending: BTreeSet::new(), invalid: BTreeSet::new(), bodies: BTreeMap::new(), proofs: BTreeSet::new(), proof_details: BTreeMap::new(), towers: BTreeSet::new() };
    for (t, c) in d {
        match t.as_str() {
            "appointment_receipts" => {
                r.receipts.insert((c[0].clone(), c[1].clone()), (c[3].clone(), c[4].clone(), c[2].parse().unwrap_or(0)));
            }
            "pending_appointments" => {
                r.pending.insert((c[0].clone(), c[1].clone()));
            }
            "invalid_appointments" => {
                r.invalid.insert((c[0].clone(), c[1].clone()));
            }
            "appointments" => {
                r.bodies.insert(c[0].clone(), (c[1].clone(), c[2].clone()));
            }
            "misbehaving_proofs" => {
                r.proofs.insert(c[0].clone());
                if c.len() >= 3 {
                    r.proof_details.insert(c[0].clone(), (c[1].clone(), c[2].clone()));
                }
            }
            "towers" => {
                r.towers.insert(c[0].clone());
            }
            _ => {}
        }
    }
    Some(r)
}

/// Is what the client persisted as the proof of a tower's misbehaviour a proof? The receipt stored for the proof's
/// locator must carry a signature that does NOT verify under the tower's id and DOES verify under the recovered id
/// stored with it.
pub fn proof_problem(rows: &Rows, tid: &str, tower_id: &TowerId) -> Option<String> {
    let (loc, recovered) = rows.proof_details.get(tid)?.clone();
    let (user_sig, tower_sig, start) = match rows.receipts.get(&(loc.clone(), tid.to_string())) {
        Some(r) => r.clone(),
        None => return Some(format!("the proof row points at locator {loc} but no receipt is stored for it")),
    };
    let rc = AppointmentReceipt::with_signature(user_sig, start, tower_sig);
    if rc.verify(tower_id) {
        return Some(format!("the receipt persisted as proof (locator {loc}) is properly signed by the tower itself: it proves nothing"));
    }
    let rid = hex::decode(&recovered).ok().and_then(|b| TowerId::from_slice(&b).ok()).or_else(|| {
        use std::str::FromStr;
        TowerId::from_str(&recovered).ok()
    });
    match rid {
        Some(rid) if rc.verify(&rid) => None,
        Some(_) => Some(format!("the receipt persisted as proof (locator {loc}) does not verify under the recovered id stored with it")),
        None => Some(format!("the recovered id stored with the proof is unreadable: {recovered}")),
    }
}

/// For every answered revocation and every registered, non-misbehaving tower: exactly one durable record.
pub fn check_records(dir: &Path, towers: &[Arc<FakeTower>], answered: &[Revocation], ctx: &str) -> Option<(String, String)> {
    // the client moves an appointment between records in two steps: tolerate a transient double record
    let mut last = None;
    for attempt in 0..4 {
        let rows = match read_rows(dir) {
            Some(r) => r,
            None => return Some(("C05:no-database".into(), format!("{ctx}: the client database does not exist"))),
        };
        last = None;
        'outer: for t in towers {
            let tid = hex::encode(t.id.to_vec());
            if !rows.towers.contains(&tid) || rows.proofs.contains(&tid) {
                continue;
            }
            for rev in answered {
                let key = (rev.locator.clone(), tid.clone());
                let n = rows.receipts.contains_key(&key) as u8 + rows.pending.contains(&key) as u8 + rows.invalid.contains(&key) as u8;
                if n != 1 {
                    last = Some((
                        if n == 0 { "C05:appointment-recorded-nowhere".to_string() } else { "C05:appointment-recorded-twice".to_string() },
                        format!("{ctx}: revocation #{} (locator {}) for tower {}: {} durable records (receipt {}, pending {}, invalid {})", rev.n, rev.locator, &tid[..10], n, rows.receipts.contains_key(&key), rows.pending.contains(&key), rows.invalid.contains(&key)),
                    ));
                    break 'outer;
                }
                if let Some((usig, tsig, start)) = rows.receipts.get(&key) {
                    let rc = AppointmentReceipt::with_signature(usig.clone(), *start, tsig.clone());
                    if !rc.verify(&t.id) {
                        last = Some(("C05:stored-receipt-does-not-verify".to_string(), format!("{ctx}: the receipt stored for revocation #{} does not verify under the tower id", rev.n)));
                        break 'outer;
                    }
                } else {
                    match rows.bodies.get(&rev.locator) {
                        Some((blob, tsd)) if *blob == hex::encode(&rev.blob) && tsd == "42" => {}
                        other => {
                            last = Some(("C05:body-missing-or-wrong".to_string(), format!("{ctx}: revocation #{} is pending/invalid but its stored body is {:?}", rev.n, other.map(|x| x.0.len()))));
                            break 'outer;
                        }
                    }
                }
            }
        }
        if last.is_none() {
            return None;
        }
        if attempt < 3 {
            std::thread::sleep(Duration::from_millis(120));
        }
    }
    last
}

fn beh_name(b: &Beh) -> String {
    match b {
        Beh::Mutated(f, h) => format!("mutated:{f}:{h}"),
        Beh::ApiError(c) => format!("api-error:{c}"),
        other => format!("{other:?}").to_lowercase(),
    }
}

// ------------------------------------------------------------------------------------------------
// C05

const HOOK_TIMEOUT: u64 = 25;


fn copy_dir(from: &Path, to: &Path) {
    let _ = std::fs::remove_dir_all(to);
    std::fs::create_dir_all(to).unwrap();
    if let Ok(rd) = std::fs::read_dir(from) {
        for e in rd.flatten() {
            let p = e.path();
            if p.is_file() {
                let _ = std::fs::copy(&p, to.join(e.file_name()));
            }
        }
    }
}

/// Names of the hook points the client process that started last has hit so far.
fn points_of_last_process(trace: &Path) -> Vec<String> {
    let text = std::fs::read_to_string(trace).unwrap_or_default();
    let mut cur: Vec<String> = Vec::new();
    for l in text.lines() {
        let name = l.split_once(' ').map(|x| x.1).unwrap_or(l);
        if name == "process.start" {
            cur.clear();
        } else {
            cur.push(name.to_string());
        }
    }
    cur
}

/// C05, retry path under a crash at every hook point: appointments are pending for a tower that was down, the
/// client is restarted with the tower up again and aborts at its k-th hook point (commit points of the client
/// database, retry-loop boundaries) while its retrier delivers them; it is then started once more and must end
/// with every appointment recorded exactly once. k sweeps all the points a reference run of the same start hits.
async fn scenario_c05_retry_sweep(seed: u64, id: u64, base: &Path, r: &mut PropReport) {
    let mut rng = Rng::stream(seed, 0xC05B, id);
    let dir = base.join(format!("c05s-{id}"));
    let snap = base.join(format!("c05s-{id}.snap"));
    let _ = std::fs::remove_dir_all(&dir);
    let opts = PluginOpts { max_retry_time: 2, auto_retry_delay: 3, max_interval: 1, abort_at: None };
    let replay = json!({"engine":"e4","family":"c05","seed":seed,"scenario":id});
    let n_towers = 1 + rng.usize(2);
    let mut towers = Vec::new();
    for _ in 0..n_towers {
        towers.push(FakeTower::start(&mut rng).await);
    }
    let cleanup = |dir: &Path, snap: &Path| {
        let _ = std::fs::remove_dir_all(dir);
        let _ = std::fs::remove_dir_all(snap);
    };
    // ---- phase A: appointments pending for the first tower (down); the others (if any) accept or reject
    let mut plugin = match Plugin::start(&dir, &opts).await {
        Ok(p) => p,
        Err(e) => {
            r.inconclusive += 1;
            r.note(format!("c05 sweep {id}: plugin did not start: {e}"));
            return;
        }
    };
    r.eval();
    for t in &towers {
        let _ = plugin.call("registertower", json!([format!("{}@127.0.0.1:{}", hex::encode(t.id.to_vec()), t.port)]), 20).await;
    }
    towers[0].set_up(false);
    if n_towers > 1 && rng.chance(1, 2) {
        towers[1].state.lock().unwrap().default_add = Beh::ApiError(4);
    }
    let n_rev = 1 + rng.usize(2);
    let mut revs = Vec::new();
    for k in 0..n_rev {
        let rev = revocation(&mut rng, k as u32 + 1);
        if plugin.revoke(&rev, HOOK_TIMEOUT).await.is_err() {
            r.inconclusive += 1;
            plugin.kill().await;
            cleanup(&dir, &snap);
            return;
        }
        revs.push(rev);
    }
    plugin.kill().await;
    copy_dir(&dir, &snap);
    towers[0].set_up(true);
    let ctx0 = format!("retry-path crash sweep {id} ({n_towers} towers, {n_rev} appointments pending for a tower that was down)");
    let tid0 = hex::encode(towers[0].id.to_vec());
    // ---- reference: which points does a start on this directory hit until everything is delivered?
    let mut plugin = match Plugin::start(&dir, &opts).await {
        Ok(p) => p,
        Err(e) => {
            r.violation("C05:restart-failed", format!("{ctx0}: {e}"), replay.clone());
            cleanup(&dir, &snap);
            return;
        }
    };
    let settled = |st: Option<(String, usize)>| st.map_or(false, |s| s.0 == "reachable" && s.1 == 0);
    let mut ok = false;
    for _ in 0..60 {
        tokio::time::sleep(Duration::from_millis(250)).await;
        if settled(tower_status(&mut plugin, &tid0).await) {
            ok = true;
            break;
        }
    }
    let names = points_of_last_process(&plugin.trace);
    plugin.kill().await;
    if !ok {
        r.violation("C05:pending-not-delivered-after-restart", format!("{ctx0}: 15 s after a restart with the tower up again the pending appointments are not delivered"), replay.clone());
        cleanup(&dir, &snap);
        return;
    }
    if let Some((sig, detail)) = check_records(&dir, &towers, &revs, &ctx0) {
        r.violation(sig, detail, replay.clone());
        cleanup(&dir, &snap);
        return;
    }
    r.count("retry_sweep_reference_points", names.len() as u64);
    // ---- the sweep
    let ks: Vec<usize> = (1..=names.len().min(24)).collect();
    for k in ks {
        copy_dir(&snap, &dir);
        let ctx = format!("{ctx0}, abort at hook point #{k} ({})", names[k - 1]);
        let mut p1 = match Plugin::start(&dir, &PluginOpts { abort_at: Some(k), ..opts.clone() }).await {
            Ok(p) => Some(p),
            Err(_) => None, // died while starting: fine, that is the crash
        };
        if let Some(p) = p1.as_mut() {
            for _ in 0..60 {
                if !p.alive() {
                    break;
                }
                tokio::time::sleep(Duration::from_millis(100)).await;
            }
            p.kill().await;
        }
        let mut p2 = match Plugin::start(&dir, &opts).await {
            Ok(p) => p,
            Err(e) => {
                r.violation("C05:restart-failed", format!("{ctx}: the client did not start again: {e}"), replay.clone());
                break;
            }
        };
        let mut ok = false;
        for _ in 0..80 {
            tokio::time::sleep(Duration::from_millis(250)).await;
            if settled(tower_status(&mut p2, &tid0).await) {
                ok = true;
                break;
            }
        }
        let verdict = check_records(&dir, &towers, &revs, &ctx);
        p2.kill().await;
        r.count(&format!("retry_sweep_abort_at[{}]", names[k - 1].split(':').next().unwrap_or("")), 1);
        r.eval();
        r.nontrivial(fnv(format!("sweep:{id}:{k}").as_bytes()));
        if let Some((sig, detail)) = verdict {
            r.violation(sig, detail, replay.clone());
            break;
        }
        if !ok {
            r.violation("C05:pending-not-delivered-after-crash", format!("{ctx}: 20 s after the restart that followed the crash the tower is not shown reachable with nothing pending"), replay.clone());
            break;
        }
    }
    cleanup(&dir, &snap);
}

async fn scenario_c05(seed: u64, id: u64, base: &Path, r: &mut PropReport) {
    if id % 4 == 2 {
        return scenario_c05_retry_sweep(seed, id, base, r).await;
    }
    let mut rng = Rng::stream(seed, 0xC05, id);
    let dir = base.join(format!("c05-{id}"));
    let _ = std::fs::remove_dir_all(&dir);
    let n_towers = 1 + rng.usize(3);
    let mut towers = Vec::new();
    for _ in 0..n_towers {
        towers.push(FakeTower::start(&mut rng).await);
    }
    let behs = [Beh::Accept, Beh::Accept, Beh::SubscriptionError, Beh::ApiError(35), Beh::ApiError(4), Beh::NonJson, Beh::WrongShape, Beh::WrongSig, Beh::MalformedSig, Beh::Empty, Beh::Hangup, Beh::CutBody, Beh::ServerError];
    let n_rev = 3 + rng.usize(5);
    let mut script_desc = Vec::new();
    for t in &towers {
        let mut st = t.state.lock().unwrap();
        for _ in 0..n_rev + 3 {
            let b = rng.pick(&behs).clone();
            script_desc.push(beh_name(&b));
            st.add.push_back(b);
        }
    }
    // fault plan: none / tower down for some revocations / SIGKILL at a tower boundary / abort at a client commit point
    let fault = rng.below(5);
    let abort_at = if fault == 4 { Some(3 + rng.usize(40)) } else { None };
    if fault == 3 {
        let t = rng.pick(&towers).clone();
        t.state.lock().unwrap().kill_at = Some((1 + rng.usize(n_rev), rng.chance(1, 2)));
    }
    let opts = PluginOpts { max_retry_time: 2, auto_retry_delay: 3, max_interval: 1, abort_at };
    let replay = json!({"engine":"e4","family":"c05","seed":seed,"scenario":id});
    let mut plugin = match Plugin::start(&dir, &opts).await {
        Ok(p) => p,
        Err(e) if abort_at.is_some() => {
            // the armed abort fired while the client was still starting up: that is a crash like any other,
            // the client is started again on the same directory
            r.count("aborts_during_startup", 1);
            match Plugin::start(&dir, &PluginOpts { abort_at: None, ..opts.clone() }).await {
                Ok(p) => p,
                Err(e2) => {
                    r.eval();
                    r.violation("C05:restart-failed-after-abort-at-startup", format!("scenario {id}: the client died at start-up ({e}, armed abort) and did not start again on the same directory: {e2}"), replay.clone());
                    return;
                }
            }
        }
        Err(e) => {
            r.inconclusive += 1;
            r.note(format!("c05 scenario {id}: plugin did not start: {e}"));
            return;
        }
    };
    r.eval();
    let mut registered = true;
    for t in &towers {
        if plugin.call("registertower", json!([format!("{}@127.0.0.1:{}", hex::encode(t.id.to_vec()), t.port)]), 20).await.is_err() {
            registered = false;
        }
    }
    if !registered {
        if abort_at.is_some() && !plugin.alive() {
            // the abort hit during registration: restart without the abort and register again
            plugin = match Plugin::start(&dir, &PluginOpts { abort_at: None, ..opts }).await {
                Ok(p) => p,
                Err(e) => {
                    r.violation("C05:restart-failed", format!("scenario {id}: the client does not restart after an abort during registration: {e}"), replay);
                    return;
                }
            };
            for t in &towers {
                let _ = plugin.call("registertower", json!([format!("{}@127.0.0.1:{}", hex::encode(t.id.to_vec()), t.port)]), 20).await;
            }
        } else {
            r.inconclusive += 1;
            r.note(format!("c05 scenario {id}: registration failed"));
            plugin.kill().await;
            return;
        }
    }
    let mut answered: Vec<Revocation> = Vec::new();
    let mut revs: Vec<Revocation> = (0..n_rev).map(|i| revocation(&mut rng, i as u32 + 1)).collect();
    // duplicate notifications
    if rng.chance(1, 2) {
        let d = revs[rng.usize(revs.len())].clone();
        let at = rng.usize(revs.len() + 1);
        revs.insert(at, d);
    }
    let down_from = if fault == 2 { Some(rng.usize(n_rev)) } else { None };
    let mut kills = 0u64;
    let mut i = 0;
    let mut history = Vec::new();
    while i < revs.len() {
        if Some(i) == down_from {
            towers[0].set_up(false);
        }
        if down_from.map_or(false, |d| i == d + 2) {
            towers[0].set_up(true);
        }
        let rev = revs[i].clone();
        // wait for either the answer or a scripted kill
        let kill_signals: Vec<_> = towers.iter().map(|t| t.kill_signal.clone()).collect();
        let res = tokio::select! {
            r = plugin.revoke(&rev, HOOK_TIMEOUT) => Some(r),
            _ = async { futures::future::select_all(kill_signals.iter().map(|k| Box::pin(k.notified()))).await; } => None,
        };
        match res {
            Some(Ok(_)) => {
                history.push(format!("rev#{} answered", rev.n));
                if !answered.iter().any(|a| a.locator == rev.locator) {
                    answered.push(rev.clone());
                }
                r.count("hooks_answered", 1);
                if let Some((sig, detail)) = check_records(&dir, &towers, &answered, &format!("scenario {id} after the answer to revocation #{} (tower scripts {:?})", rev.n, &script_desc[..script_desc.len().min(12)])) {
                    r.violation(sig, detail, replay.clone());
                    plugin.kill().await;
                    return;
                }
                r.count("record_checks", (answered.len() * towers.len()) as u64);
                i += 1;
            }
            Some(Err(CallErr::Timeout)) => {
                let pt = plugin.panic_text();
                r.violation(
                    if pt.is_some() { "C05:hook-unanswered:panic".to_string() } else { "C05:hook-unanswered".to_string() },
                    format!("scenario {id}: the notification of revocation #{} got no answer within {HOOK_TIMEOUT}s (client alive: {}; stderr: {:?}; tower scripts {:?})", rev.n, plugin.alive(), pt, &script_desc[..script_desc.len().min(12)]),
                    replay.clone(),
                );
                plugin.kill().await;
                return;
            }
            Some(Err(CallErr::Rpc(e))) => {
                r.violation("C05:hook-error", format!("scenario {id}: the notification of revocation #{} was answered with an error: {e}", rev.n), replay.clone());
                plugin.kill().await;
                return;
            }
            Some(Err(CallErr::Dead)) | None => {
                // killed (scripted SIGKILL or abort at a commit point): restart on the same directory and notify again
                kills += 1;
                history.push(format!("killed during rev#{}", rev.n));
                plugin.kill().await;
                r.count("kills", 1);
                plugin = match Plugin::start(&dir, &PluginOpts { abort_at: None, ..PluginOpts { max_retry_time: 2, auto_retry_delay: 3, max_interval: 1, abort_at: None } }).await {
                    Ok(p) => p,
                    Err(e) => {
                        r.violation("C05:restart-failed", format!("scenario {id}: the client does not restart after being killed: {e}"), replay.clone());
                        return;
                    }
                };
                // the obligation survives the restart
                if let Some((sig, detail)) = check_records(&dir, &towers, &answered, &format!("scenario {id} after a kill during revocation #{} and a restart", rev.n)) {
                    r.violation(sig, detail, replay.clone());
                    plugin.kill().await;
                    return;
                }
                if kills > 3 {
                    break;
                }
                // (not incrementing i: lightningd replays the unanswered hook)
            }
        }
    }
    // retry rounds: let the retriers work for a while, then check again
    tokio::time::sleep(Duration::from_millis(2500)).await;
    if let Some((sig, detail)) = check_records(&dir, &towers, &answered, &format!("scenario {id} after the retry rounds")) {
        r.violation(sig, detail, replay.clone());
        plugin.kill().await;
        return;
    }
    // ---- abandon phase: two more towers, three more revocations that end up shared between them in different
    // records (invalid at both / pending at the one about to be abandoned and invalid at the other / pending at
    // both), then one of the two is abandoned: the records of the tower that stays must not move
    if plugin.alive() {
        let mut arng = Rng::stream(seed, 0xC05A, id);
        let ta = FakeTower::start(&mut arng).await;
        let tb = FakeTower::start(&mut arng).await;
        let mut reg_ok = true;
        for t in [&ta, &tb] {
            if plugin.call("registertower", json!([format!("{}@127.0.0.1:{}", hex::encode(t.id.to_vec()), t.port)]), 20).await.is_err() {
                reg_ok = false;
            }
        }
        if reg_ok {
            let z = revocation(&mut arng, 901);
            let x = revocation(&mut arng, 902);
            let y = revocation(&mut arng, 903);
            let mut shared: Vec<Revocation> = Vec::new();
            // Z: rejected by both
            ta.state.lock().unwrap().add.push_back(Beh::ApiError(4));
            tb.state.lock().unwrap().add.push_back(Beh::ApiError(35));
            let mut all_answered = plugin.revoke(&z, HOOK_TIMEOUT).await.is_ok();
            shared.push(z);
            // X: the tower to be abandoned is down (pending there), the other one rejects
            ta.set_up(false);
            tokio::time::sleep(Duration::from_millis(60)).await;
            tb.state.lock().unwrap().add.push_back(Beh::ApiError(4));
            all_answered &= plugin.revoke(&x, HOOK_TIMEOUT).await.is_ok();
            shared.push(x);
            // Y: both down (pending at both)
            tb.set_up(false);
            tokio::time::sleep(Duration::from_millis(60)).await;
            all_answered &= plugin.revoke(&y, HOOK_TIMEOUT).await.is_ok();
            shared.push(y);
            if all_answered {
                let ctx = format!("scenario {id}, abandon phase (towers A and B registered late; Z invalid at both, X pending at A and invalid at B, Y pending at both)");
                let before = check_records(&dir, &[ta.clone(), tb.clone()], &shared, &format!("{ctx} before abandoning A"));
                let abandoned = plugin.call("abandontower", json!([hex::encode(ta.id.to_vec())]), 20).await.is_ok();
                if before.is_none() && abandoned {
                    r.count("abandon_phases_checked", 1);
                    let mut bad = check_records(&dir, &[tb.clone()], &shared, &format!("{ctx} after abandontower A"));
                    if bad.is_none() {
                        // and the same after a restart
                        plugin.kill().await;
                        match Plugin::start(&dir, &PluginOpts { max_retry_time: 2, auto_retry_delay: 3, max_interval: 1, abort_at: None }).await {
                            Ok(p) => {
                                plugin = p;
                                bad = check_records(&dir, &[tb.clone()], &shared, &format!("{ctx} after abandontower A and a client restart"));
                                if bad.is_none() {
                                    // what the client reports for B must agree with its database
                                    if let Ok(info) = plugin.call("gettowerinfo", json!([hex::encode(tb.id.to_vec())]), 10).await {
                                        let n_inv = info.get("invalid_appointments").and_then(|a| a.as_object()).map_or(0, |a| a.len());
                                        let n_pend = info.get("pending_appointments").and_then(|a| a.as_object()).map_or(0, |a| a.len());
                                        let rows = read_rows(&dir);
                                        let tbid = hex::encode(tb.id.to_vec());
                                        let db_inv = rows.as_ref().map_or(0, |x| x.invalid.iter().filter(|k| k.1 == tbid).count());
                                        let db_pend = rows.as_ref().map_or(0, |x| x.pending.iter().filter(|k| k.1 == tbid).count());
                                        if n_inv != db_inv || (db_pend > 0 && n_pend == 0) {
                                            bad = Some(("C05:reported-records-differ-from-database".to_string(), format!("{ctx}: after the restart gettowerinfo reports {n_inv} invalid / {n_pend} pending appointments for B, the database holds {db_inv} / {db_pend}")));
                                        }
                                    }
                                }
                            }
                            Err(e) => {
                                r.violation("C05:restart-failed", format!("{ctx}: the client does not restart after abandontower: {e}"), replay.clone());
                                return;
                            }
                        }
                    }
                    if let Some((sig, detail)) = bad {
                        r.violation(sig.replace("C05:", "C05:after-abandon:"), detail, replay.clone());
                        plugin.kill().await;
                        return;
                    }
                    // the records of the towers of the first part of the scenario must not have moved either
                    if let Some((sig, detail)) = check_records(&dir, &towers, &answered, &format!("{ctx}: records of the other towers after abandontower A")) {
                        r.violation(sig.replace("C05:", "C05:after-abandon:"), detail, replay.clone());
                        plugin.kill().await;
                        return;
                    }
                } else if let Some((sig, detail)) = before {
                    r.violation(sig, detail, replay.clone());
                    plugin.kill().await;
                    return;
                }
            }
        }
    }
    if let Some(pt) = plugin.panic_text() {
        r.violation("C05:panic", format!("scenario {id}: the client panicked: {pt}"), replay.clone());
    }
    r.nontrivial(fnv(format!("{id}:{script_desc:?}:{fault}").as_bytes()));
    r.count(&format!("fault_plan[{}]", ["none", "none", "tower-outage", "sigkill-at-tower-boundary", "abort-at-commit-point"][fault as usize]), 1);
    r.sample(|| json!({"scenario": id, "towers": n_towers, "revocations": revs.len(), "tower_scripts": script_desc.iter().take(10).collect::<Vec<_>>(), "history": history}));
    plugin.kill().await;
    let _ = std::fs::remove_dir_all(&dir);
}

// ------------------------------------------------------------------------------------------------
// C14

async fn scenario_c14(seed: u64, id: u64, base: &Path, r: &mut PropReport) {
    let mut rng = Rng::stream(seed, 0xC14, id);
    let dir = base.join(format!("c14-{id}"));
    let _ = std::fs::remove_dir_all(&dir);
    let opts = PluginOpts { max_retry_time: 1, auto_retry_delay: 600, max_interval: 1, abort_at: None };
    let replay = json!({"engine":"e4","family":"c14","seed":seed,"scenario":id});
    let mut plugin = match Plugin::start(&dir, &opts).await {
        Ok(p) => p,
        Err(e) => {
            r.inconclusive += 1;
            r.note(format!("c14 scenario {id}: plugin did not start: {e}"));
            return;
        }
    };
    let reg_fields = ["user_id", "available_slots", "subscription_start", "subscription_expiry", "subscription_signature"];
    let add_fields = ["locator", "start_block", "signature", "available_slots", "subscription_expiry"];
    let hows = ["drop", "null", "string", "number", "negative", "huge", "array", "empty", "zero", "truncate", "odd"];
    // a handful of reply mutations per client process, each against a fresh tower
    for case in 0..6u32 {
        r.eval();
        let tower = FakeTower::start(&mut rng).await;
        let tid = hex::encode(tower.id.to_vec());
        let on_register = rng.chance(2, 5);
        let beh = match rng.below(14) {
            0 => Beh::NonJson,
            1 => Beh::WrongShape,
            2 => Beh::WrongSig,
            3 => Beh::MalformedSig,
            4 => Beh::Empty,
            5 => Beh::Huge,
            6 => Beh::ServerError,
            7 => Beh::Hangup,
            8 | 9 if on_register => Beh::Mutated(rng.pick(&["expiry", "slots", "expiry-down-slots-up", "expiry-down-slots-up", "slots-down-expiry-up"]).to_string(), "not-extending".into()),
            _ => Beh::Mutated(rng.pick(if on_register { &reg_fields } else { &add_fields }).to_string(), rng.pick(&hows).to_string()),
        };
        let bname = beh_name(&beh);
        r.count(&format!("reply[{}:{}]", if on_register { "register" } else { "add" }, bname.split(':').next().unwrap_or("")), 1);
        r.nontrivial(fnv(format!("{on_register}:{bname}").as_bytes()));
        let ctx = format!("scenario {id} case {case}: reply {bname} to {}", if on_register { "register" } else { "add_appointment" });
        let reg_addr = json!([format!("{tid}@127.0.0.1:{}", tower.port)]);
        if on_register {
            // first a good registration half of the time, so that "strictly extends" is exercised
            let had_good = rng.chance(1, 2) || matches!(beh, Beh::Mutated(_, ref h) if h == "not-extending");
            if had_good {
                let _ = plugin.call("registertower", reg_addr.clone(), 20).await;
            }
            let before = read_rows(&dir);
            let n_receipts_before = count_reg_receipts(&dir, &tid);
            let terms = |v: Option<Value>| -> Option<(u64, u64)> {
                let t = v?;
                let t = t.get(&tid)?.clone();
                Some((t.get("available_slots")?.as_u64()?, t.get("subscription_expiry")?.as_u64()?))
            };
            let terms_before = terms(plugin.call("listtowers", json!([]), 10).await.ok());
            tower.state.lock().unwrap().register.push_back(beh.clone());
            let res = plugin.call("registertower", reg_addr.clone(), 20).await;
            let n_receipts_after = count_reg_receipts(&dir, &tid);
            let terms_after = terms(plugin.call("listtowers", json!([]), 10).await.ok());
            let _ = before;
            // whatever the reply was: the subscription the client believes in either stays as it was or grows in
            // both slots and expiry
            if let (Some(b), Some(a)) = (terms_before, terms_after) {
                if a != b && (a.0 <= b.0 || a.1 <= b.1) {
                    r.violation(format!("C14:subscription-went-backwards:{}", bname.split(':').skip(1).collect::<Vec<_>>().join(":")), format!("{ctx}: the client's view of the subscription went from (slots {}, expiry {}) to (slots {}, expiry {})", b.0, b.1, a.0, a.1), replay.clone());
                }
            }
            // the mutated reply must not be recorded unless it still is a valid, extending, verifying receipt
            let harmless = matches!(&beh, Beh::Mutated(f, h) if (f == "user_id") || (f == "subscription_start" && false) || h == "odd" && false);
            if n_receipts_after > n_receipts_before && !harmless {
                // it was recorded: only acceptable if the stored receipt verifies and extends
                if let Some(v) = stored_receipt_problem(&dir, &tid, &tower.id, &plugin).await {
                    r.violation(format!("C14:bad-registration-recorded:{}", bname.split(':').skip(1).collect::<Vec<_>>().join(":")), format!("{ctx}: {v}"), replay.clone());
                }
            }
            if matches!(res, Err(CallErr::Timeout)) {
                r.violation(format!("C14:register-hangs:{}", bname.split(':').next().unwrap_or("")), format!("{ctx}: registertower got no answer (client alive: {}, stderr: {:?})", plugin.alive(), plugin.panic_text()), replay.clone());
                break;
            }
        } else {
            if plugin.call("registertower", reg_addr.clone(), 20).await.is_err() {
                r.inconclusive += 1;
                continue;
            }
            let rev = revocation(&mut rng, case * 10 + 1);
            if beh == Beh::WrongSig && rng.chance(1, 2) {
                // the tower first acknowledges this very appointment properly; the misbehaviour comes with a repeated
                // notification of the same revocation
                let _ = plugin.revoke(&rev, HOOK_TIMEOUT).await;
                r.count("misbehaviour_on_repeated_notification", 1);
            }
            tower.state.lock().unwrap().add.push_back(beh.clone());
            let res = plugin.revoke(&rev, HOOK_TIMEOUT).await;
            if res.is_err() {
                r.violation(format!("C14:hook-unanswered:{}", bname.split(':').next().unwrap_or("")), format!("{ctx}: the notification got no answer ({res:?}); client alive: {}; stderr: {:?}", plugin.alive(), plugin.panic_text()), replay.clone());
                break;
            }
            if beh == Beh::WrongSig {
                // misbehaving: proof persisted, status shown, and no further request to that tower
                tokio::time::sleep(Duration::from_millis(300)).await;
                let rows = read_rows(&dir);
                let has_proof = rows.as_ref().map_or(false, |x| x.proofs.contains(&tid));
                let lt = plugin.call("listtowers", json!([]), 10).await.ok();
                let status = lt.as_ref().and_then(|v| v.get(&tid)).and_then(|t| t.get("status")).and_then(|s| s.as_str()).unwrap_or("?").to_string();
                if !has_proof || status != "misbehaving" {
                    r.violation("C14:misbehaviour-not-recorded", format!("{ctx}: after an acknowledgement signed by another key: proof persisted = {has_proof}, status = {status}"), replay.clone());
                } else if let Some(why) = rows.as_ref().and_then(|x| proof_problem(x, &tid, &tower.id)) {
                    r.violation("C14:persisted-proof-proves-nothing", format!("{ctx}: {why}"), replay.clone());
                } else {
                    r.count("misbehaviour_proofs_verified", 1);
                }
                let n0 = tower.state.lock().unwrap().log.len();
                for k in 0..2 {
                    let rev2 = revocation(&mut rng, case * 10 + 2 + k);
                    let _ = plugin.revoke(&rev2, HOOK_TIMEOUT).await;
                }
                tokio::time::sleep(Duration::from_millis(1500)).await;
                let n1 = tower.state.lock().unwrap().log.len();
                if n1 != n0 {
                    r.violation("C14:sends-to-misbehaving-tower", format!("{ctx}: {} further requests reached the tower after it was proven misbehaving", n1 - n0), replay.clone());
                } else if case % 2 == 0 && plugin.alive() {
                    // the user registers with the proven-misbehaving tower once more (a correctly signed receipt that extends the
                    // subscription): whatever the client answers, the proof stands and no appointment may go to that tower
                    let rereg = plugin.call("registertower", json!([format!("{tid}@127.0.0.1:{}", tower.port)]), 20).await.is_ok();
                    let adds = |t: &FakeTower| t.state.lock().unwrap().log.iter().filter(|l| l.endpoint != "register").count();
                    let a0 = adds(&tower);
                    for k in 0..2 {
                        let rev3 = revocation(&mut rng, case * 10 + 5 + k);
                        let _ = plugin.revoke(&rev3, HOOK_TIMEOUT).await;
                    }
                    tokio::time::sleep(Duration::from_millis(1500)).await;
                    let a1 = adds(&tower);
                    let lt = plugin.call("listtowers", json!([]), 10).await.ok();
                    let status = lt.as_ref().and_then(|v| v.get(&tid)).and_then(|t| t.get("status")).and_then(|s| s.as_str()).unwrap_or("?").to_string();
                    let has_proof = read_rows(&dir).map_or(false, |x| x.proofs.contains(&tid));
                    r.count("re_registrations_of_a_misbehaving_tower_checked", 1);
                    if a1 != a0 {
                        r.violation("C14:sends-to-misbehaving-tower:after-re-registration", format!("{ctx}: the user registered again with the tower proven misbehaving (accepted by the client: {rereg}); {} appointment requests reached it afterwards (status shown: {status}, proof on disk: {has_proof})", a1 - a0), replay.clone());
                    } else if !has_proof {
                        r.violation("C14:proof-lost:after-re-registration", format!("{ctx}: registering again with the tower proven misbehaving removed the persisted proof (status shown: {status})"), replay.clone());
                    }
                }
                r.count("misbehaviour_cases_checked", 1);
            }
        }
        // after every reply: alive, no panic text, listtowers answers, the next hook is answered
        tokio::time::sleep(Duration::from_millis(100)).await;
        if !plugin.alive() {
            r.violation(format!("C14:client-died:{}", bname.split(':').next().unwrap_or("")), format!("{ctx}: the client process exited; stderr {:?}", plugin.panic_text()), replay.clone());
            break;
        }
        if let Some(pt) = plugin.panic_text() {
            r.violation(format!("C14:panic:{}", bname.split(':').next().unwrap_or("")), format!("{ctx}: panic text on stderr: {pt}"), replay.clone());
            break;
        }
        if plugin.call("listtowers", json!([]), 10).await.is_err() {
            r.violation(format!("C14:wedged:{}", bname.split(':').next().unwrap_or("")), format!("{ctx}: listtowers no longer answers"), replay.clone());
            break;
        }
        // let the retry manager settle, then get rid of the tower so that cases stay independent
        let _ = plugin.call("abandontower", json!([tid]), 10).await;
        let probe = revocation(&mut rng, case * 10 + 9);
        if plugin.revoke(&probe, HOOK_TIMEOUT).await.is_err() {
            r.violation(format!("C14:wedged:{}", bname.split(':').next().unwrap_or("")), format!("{ctx}: the next notification is not answered (stderr {:?})", plugin.panic_text()), replay.clone());
            break;
        }
        r.count("replies_survived", 1);
        r.sample(|| json!({"scenario": id, "case": case, "endpoint": if on_register { "register" } else { "add_appointment" }, "reply": bname}));
    }
    // ---- two notifications in flight at once (two channels revoking together), both acknowledged with a signature by
    // another key: the tower is proven misbehaving twice over; the client must survive that like any other reply
    'double_proof: {
        if !plugin.alive() || id % 3 != 0 {
            break 'double_proof;
        }
        r.eval();
        let tower = FakeTower::start(&mut rng).await;
        let tid = hex::encode(tower.id.to_vec());
        let ctx = format!("scenario {id} two wrongly signed acknowledgements in flight");
        if plugin.call("registertower", json!([format!("{tid}@127.0.0.1:{}", tower.port)]), 20).await.is_err() {
            r.inconclusive += 1;
            break 'double_proof;
        }
        {
            let mut st = tower.state.lock().unwrap();
            st.default_add = Beh::WrongSig;
            st.add_delay_ms = 300;
        }
        let ra = revocation(&mut rng, 801);
        let rb = revocation(&mut rng, 802);
        let params = |rev: &Revocation| json!({"commitment_txid": rev.txid.to_string(), "penalty_tx": hex::encode(consensus::serialize(&rev.penalty)), "channel_id": "ab".repeat(32), "commitnum": rev.n});
        let res = plugin.call_many(vec![("commitment_revocation", params(&ra)), ("commitment_revocation", params(&rb))], HOOK_TIMEOUT).await;
        let in_flight_together = {
            let st = tower.state.lock().unwrap();
            let adds: Vec<&ReqLog> = st.log.iter().filter(|l| l.endpoint == "add_appointment").collect();
            adds.len() >= 2 && adds[1].t.duration_since(adds[0].t) < Duration::from_millis(300)
        };
        tokio::time::sleep(Duration::from_millis(300)).await;
        let unanswered = res.iter().filter(|x| x.is_err()).count();
        if !plugin.alive() || plugin.panic_text().is_some() || unanswered > 0 {
            r.violation("C14:double-misbehaviour-proof", format!("{ctx}: {unanswered} of the two notifications got no proper answer; client alive: {}; stderr: {:?}", plugin.alive(), plugin.panic_text()), replay.clone());
            plugin.kill().await;
            let _ = std::fs::remove_dir_all(&dir);
            return;
        }
        // the client still works: status shown, proof on disk, the next notification answered
        let st = tower_status(&mut plugin, &tid).await.map(|x| x.0);
        let has_proof = read_rows(&dir).as_ref().map_or(false, |x| x.proofs.contains(&tid));
        let probe = revocation(&mut rng, 803);
        let next_ok = plugin.revoke(&probe, HOOK_TIMEOUT).await.is_ok();
        if st.as_deref() != Some("misbehaving") || !has_proof || !next_ok {
            r.violation("C14:double-misbehaviour-proof", format!("{ctx}: afterwards the tower is shown as {st:?}, proof persisted = {has_proof}, next notification answered = {next_ok}; stderr: {:?}", plugin.panic_text()), replay.clone());
            plugin.kill().await;
            let _ = std::fs::remove_dir_all(&dir);
            return;
        }
        if in_flight_together {
            r.count("double_misbehaviour_proofs_in_flight_checked", 1);
            r.nontrivial(fnv(format!("double-proof:{id}").as_bytes()));
        }
        let _ = plugin.call("abandontower", json!([tid]), 10).await;
    }
    // ---- misbehaviour proven on the retry path, then a client restart: the tower stays banned
    'retry_path: {
        if !plugin.alive() {
            break 'retry_path;
        }
        r.eval();
        let tower = FakeTower::start(&mut rng).await;
        let tid = hex::encode(tower.id.to_vec());
        let ctx = format!("scenario {id} retry-path misbehaviour");
        if plugin.call("registertower", json!([format!("{tid}@127.0.0.1:{}", tower.port)]), 20).await.is_err() {
            r.inconclusive += 1;
            break 'retry_path;
        }
        tower.set_up(false);
        let rev = revocation(&mut rng, 901);
        if plugin.revoke(&rev, HOOK_TIMEOUT).await.is_err() {
            r.inconclusive += 1;
            break 'retry_path;
        }
        // wait for the retrier to give up (max_retry_time = 1 s) and idle (generously: the give-up instant is the
        // client's own wall clock and comes late on a loaded machine)
        let mut idle = false;
        for _ in 0..300 {
            tokio::time::sleep(Duration::from_millis(100)).await;
            if let Some((st, _)) = tower_status(&mut plugin, &tid).await {
                if st == "unreachable" {
                    idle = true;
                    break;
                }
            }
        }
        if !idle {
            r.inconclusive += 1;
            r.note(format!("{ctx}: the retrier did not idle in 30 s"));
            break 'retry_path;
        }
        tower.state.lock().unwrap().add.push_back(Beh::WrongSig);
        tower.set_up(true);
        let _ = plugin.call("retrytower", json!([tid]), 10).await;
        let mut flagged = false;
        for k in 0..400 {
            if k > 0 && k % 50 == 0 {
                // the manual retry may have been refused if the retrier was between states: ask again
                let _ = plugin.call("retrytower", json!([tid]), 10).await;
            }
            tokio::time::sleep(Duration::from_millis(100)).await;
            if tower_status(&mut plugin, &tid).await.map_or(false, |(st, _)| st == "misbehaving") {
                flagged = true;
                break;
            }
        }
        if !flagged {
            // judged on what happened, not on the clock: was the wrongly signed acknowledgement served at all?
            let served = tower.state.lock().unwrap().log.iter().any(|l| l.endpoint != "register" && l.beh.contains("WrongSig"));
            if !served {
                r.inconclusive += 1;
                r.note(format!("{ctx}: the retry never reached the tower within 40 s (loaded machine): nothing to judge"));
                break 'retry_path;
            }
            // it was: the client has the reply in hand, flagging it is a matter of moments - another 20 s are allowed
            for _ in 0..200 {
                tokio::time::sleep(Duration::from_millis(100)).await;
                if tower_status(&mut plugin, &tid).await.map_or(false, |(st, _)| st == "misbehaving") {
                    flagged = true;
                    break;
                }
            }
        }
        let has_proof = read_rows(&dir).as_ref().map_or(false, |x| x.proofs.contains(&tid));
        if !flagged || !has_proof {
            r.violation("C14:misbehaviour-not-recorded:retry-path", format!("{ctx}: after an acknowledgement signed by another key on the retry path: status misbehaving = {flagged}, proof persisted = {has_proof}"), replay.clone());
            break 'retry_path;
        }
        // restart on the same data directory
        plugin.kill().await;
        let n0 = tower.state.lock().unwrap().log.len();
        plugin = match Plugin::start(&dir, &opts).await {
            Ok(p) => p,
            Err(e) => {
                r.violation("C14:restart-failed-after-misbehaviour", format!("{ctx}: the client did not restart: {e}"), replay.clone());
                let _ = std::fs::remove_dir_all(&dir);
                return;
            }
        };
        tokio::time::sleep(Duration::from_millis(1500)).await;
        let rev2 = revocation(&mut rng, 902);
        let _ = plugin.revoke(&rev2, HOOK_TIMEOUT).await;
        tokio::time::sleep(Duration::from_millis(1500)).await;
        let n1 = tower.state.lock().unwrap().log.len();
        let st = tower_status(&mut plugin, &tid).await.map(|x| x.0).unwrap_or_else(|| "?".into());
        if n1 != n0 {
            r.violation("C14:sends-to-misbehaving-tower:after-restart", format!("{ctx}: {} requests reached the tower after a client restart although its misbehaviour proof is on disk (status shown: {st})", n1 - n0), replay.clone());
        } else if st != "misbehaving" {
            r.violation("C14:misbehaving-status-lost-on-restart", format!("{ctx}: after a client restart the tower with a persisted misbehaviour proof is shown as {st}"), replay.clone());
        }
        r.count("misbehaviour_retry_path_restart_checked", 1);
        r.nontrivial(fnv(format!("retry-path:{id}").as_bytes()));
    }
    plugin.kill().await;
    let _ = std::fs::remove_dir_all(&dir);
}

fn count_reg_receipts(dir: &Path, tid: &str) -> usize {
    let p = dir.join("watchtowers_db.sql3");
    if !p.exists() {
        return 0;
    }
    dump(&p).iter().filter(|(t, c)| t == "registration_receipts" && c[0] == tid).count()
}

/// The latest stored registration receipt must verify under the tower id and extend the previous one.
async fn stored_receipt_problem(dir: &Path, tid: &str, tower_id: &TowerId, plugin: &Plugin) -> Option<String> {
    let _ = plugin;
    let p = dir.join("watchtowers_db.sql3");
    let rows: Vec<Vec<String>> = dump(&p).into_iter().filter(|(t, c)| t == "registration_receipts" && c[0] == tid).map(|(_, c)| c).collect();
    // columns: tower_id, available_slots, subscription_start, subscription_expiry, signature
    let mut rows = rows;
    rows.sort_by_key(|c| c[3].parse::<u64>().unwrap_or(0));
    let user = user_id_of(dir)?;
    // every stored receipt must verify
    for c in &rows {
        let rc = RegistrationReceipt::with_signature(user, c[1].parse().ok()?, c[2].parse().ok()?, c[3].parse().ok()?, c[4].clone());
        if !rc.verify(tower_id) {
            return Some(format!("a registration receipt that does not verify under the tower id was recorded (slots {}, expiry {})", c[1], c[3]));
        }
    }
    // ordered by expiry, the slots must grow too: a receipt with an earlier expiry and more slots (or the reverse)
    // does not extend its neighbour
    for w in rows.windows(2) {
        if w[1][1].parse::<u64>().ok()? <= w[0][1].parse::<u64>().ok()? || w[1][3].parse::<u64>().ok()? <= w[0][3].parse::<u64>().ok()? {
            return Some(format!("a registration that does not strictly extend the stored one was recorded ({:?} next to {:?})", (&w[1][1], &w[1][3]), (&w[0][1], &w[0][3])));
        }
    }
    let last = rows.last()?;
    let rc = RegistrationReceipt::with_signature(user, last[1].parse().ok()?, last[2].parse().ok()?, last[3].parse().ok()?, last[4].clone());
    if !rc.verify(tower_id) {
        return Some(format!("a registration receipt that does not verify under the tower id was recorded (slots {}, expiry {})", last[1], last[3]));
    }
    if rows.len() >= 2 {
        let prev = &rows[rows.len() - 2];
        if last[3].parse::<u64>().ok()? <= prev[3].parse::<u64>().ok()? || last[1].parse::<u64>().ok()? <= prev[1].parse::<u64>().ok()? {
            return Some(format!("a registration that does not strictly extend the stored one was recorded ({:?} after {:?})", (&last[1], &last[3]), (&prev[1], &prev[3])));
        }
    }
    None
}

fn user_id_of(dir: &Path) -> Option<UserId> {
    use std::str::FromStr;
    let c = rusqlite::Connection::open_with_flags(dir.join("watchtowers_db.sql3"), rusqlite::OpenFlags::SQLITE_OPEN_READ_ONLY).ok()?;
    let k: String = c.query_row("SELECT key FROM keys ORDER BY id DESC LIMIT 1", [], |r| r.get(0)).ok()?;
    let sk = SecretKey::from_str(&k).ok()?;
    Some(UserId(PublicKey::from_secret_key(&bitcoin::secp256k1::Secp256k1::new(), &sk)))
}

// ------------------------------------------------------------------------------------------------
// C13

fn trace_overlaps(trace: &Path) -> Option<String> {
    let s = std::fs::read_to_string(trace).ok()?;
    let mut open: BTreeSet<String> = BTreeSet::new();
    for line in s.lines() {
        let name = line.split_whitespace().nth(1).unwrap_or("");
        if name == "process.start" {
            // loops of a killed process ended with it
            open.clear();
        }
        if let Some(t) = name.strip_prefix("retrier.loop.begin:") {
            if !open.insert(t.to_string()) {
                return Some(format!("a second retry loop began for tower {} while one was still active", &t[..t.len().min(10)]));
            }
        } else if let Some(t) = name.strip_prefix("retrier.loop.end:") {
            open.remove(t);
        }
    }
    None
}

fn flood(log: &[ReqLog]) -> Option<(String, usize)> {
    // more than 12 requests for one locator inside any one-second window (the back-off's fastest
    // legitimate repeat is about 4 per second)
    let mut by: BTreeMap<String, Vec<Instant>> = BTreeMap::new();
    for l in log {
        if let Some(loc) = &l.locator {
            by.entry(loc.clone()).or_default().push(l.t);
        }
    }
    for (loc, ts) in by {
        let mut j = 0;
        for i in 0..ts.len() {
            while ts[i].duration_since(ts[j]) > Duration::from_secs(1) {
                j += 1;
            }
            if i - j + 1 > 12 {
                return Some((loc, i - j + 1));
            }
        }
    }
    None
}

async fn tower_status(plugin: &mut Plugin, tid: &str) -> Option<(String, usize)> {
    let lt = plugin.call("listtowers", json!([]), 10).await.ok()?;
    let t = lt.get(tid)?;
    Some((t.get("status")?.as_str()?.to_string(), t.get("pending_appointments")?.as_array()?.len()))
}

/// The retry of a tower in `subscription error` failed for good (the renewal was answered with a receipt that does not
/// extend the subscription): the data must be retained under `subscription error`; once the tower renews properly a
/// manual retry (documented for that state) or the next revocation must get everything delivered.
#[allow(clippy::too_many_arguments)]
async fn scenario_c13_failed_retrier(id: u64, ctx: &str, mut plugin: Plugin, tower: Arc<FakeTower>, tid: String, mut revs: Vec<Revocation>, mut next_n: u32, mut rng: Rng, dir: PathBuf, replay: Value, r: &mut PropReport, bound_s: u64) {
    // settle: subscription error, everything pending (generous wall-clock wait, inconclusive if the state is never seen)
    let t_wait = Instant::now();
    let mut seen = tower_status(&mut plugin, &tid).await;
    let renewals = |t: &FakeTower| t.state.lock().unwrap().log.iter().filter(|l| l.endpoint == "register").count();
    // (the first `register` in the log is the registration itself)
    while (seen.as_ref().map_or(true, |s| s.0 != "subscription_error") || renewals(&tower) < 2) && t_wait.elapsed() < Duration::from_secs(20) {
        tokio::time::sleep(Duration::from_millis(400)).await;
        seen = tower_status(&mut plugin, &tid).await;
    }
    match &seen {
        Some((st, pend)) if st == "subscription_error" && renewals(&tower) >= 2 => {
            if *pend != revs.len() {
                r.violation("C13:status-while-failing", format!("{ctx}: after the renewal was refused for good the tower is shown as {st} with {pend} pending appointments ({} were notified)", revs.len()), replay.clone());
                plugin.kill().await;
                return;
            }
            r.count("give_up_states_checked", 1);
        }
        other => {
            r.inconclusive += 1;
            r.note(format!("{ctx}: the state 'subscription error after a refused renewal' was not reached within 20 s (seen {other:?}, {} register requests)", renewals(&tower)));
            plugin.kill().await;
            return;
        }
    }
    // the manager drops a failed retrier at its next round (1 s polling): give it three
    tokio::time::sleep(Duration::from_millis(3000)).await;
    {
        let mut st = tower.state.lock().unwrap();
        st.default_register = Beh::Accept;
        st.default_add = Beh::Accept;
        st.add.clear();
        st.register.clear();
    }
    let t_rec = Instant::now();
    let by_revocation = rng.chance(1, 2);
    if by_revocation {
        // the next revocation finds no retrier for the tower: it must start one
        let rev = revocation(&mut rng, next_n);
        next_n += 1;
        if plugin.revoke(&rev, HOOK_TIMEOUT).await.is_err() {
            r.violation("C13:hook-unanswered", format!("{ctx}: a notification arriving after the retry had failed for good was not answered; stderr {:?}", plugin.panic_text()), replay.clone());
            plugin.kill().await;
            return;
        }
        revs.push(rev);
        r.count("revocations_after_failed_retrier", 1);
    } else {
        let mut res = plugin.call("retrytower", json!([tid]), 10).await;
        for _ in 0..8 {
            match &res {
                // the failed retrier has not been cleaned up yet (the manager's round is the product's wall clock): documented
                // answer, asked again a little later
                Err(CallErr::Rpc(e)) if e.to_string().contains("already being retried") => {
                    tokio::time::sleep(Duration::from_millis(2500)).await;
                    res = plugin.call("retrytower", json!([tid]), 10).await;
                }
                _ => break,
            }
        }
        r.count("manual_retries", 1);
        r.count("manual_retries_after_failed_retrier", 1);
        if let Err(e) = &res {
            let st = tower_status(&mut plugin, &tid).await;
            r.violation("C13:manual-retry-refused", format!("{ctx}: retrytower was refused ({e:?}) although the tower was shown as {st:?} and no retry was running"), replay.clone());
            plugin.kill().await;
            return;
        }
    }
    let bound = Duration::from_secs(bound_s);
    let mut ok = false;
    let mut last = None;
    while t_rec.elapsed() < bound {
        tokio::time::sleep(Duration::from_millis(400)).await;
        last = tower_status(&mut plugin, &tid).await;
        if last.as_ref().map(|s| (s.0.as_str(), s.1)) == Some(("reachable", 0)) {
            ok = true;
            break;
        }
    }
    let how = if by_revocation { "a new revocation arrived" } else { "retrytower was accepted" };
    if !ok {
        r.violation(
            "C13:not-delivered:after-failed-retrier",
            format!("{ctx}: the tower renews properly again and {how}; {}s later the tower is shown as {last:?} ({} requests reached it since); stderr {:?}", bound.as_secs(), tower.state.lock().unwrap().log.iter().filter(|l| l.t > t_rec).count(), plugin.panic_text()),
            replay.clone(),
        );
    } else if let Some((sig, detail)) = check_records(&dir, &[tower.clone()], &revs, ctx) {
        r.violation(sig.replace("C05:", "C13:after-recovery:"), detail, replay.clone());
    } else {
        r.count("recoveries_delivered", 1);
        r.max("max_delivery_ms_after_recovery", t_rec.elapsed().as_millis() as u64);
    }
    if let Some(o) = trace_overlaps(&plugin.trace) {
        r.violation("C13:overlapping-retry-loops", format!("{ctx}: {o}"), replay.clone());
    }
    if let Some((loc, n)) = { let st = tower.state.lock().unwrap(); flood(&st.log) } {
        r.violation("C13:flood", format!("{ctx}: {n} requests for locator {loc} within one second"), replay.clone());
    }
    if let Some(pt) = plugin.panic_text() {
        r.violation("C13:panic", format!("{ctx}: {pt}"), replay.clone());
    }
    r.nontrivial(fnv(format!("{id}:failed-retrier:{by_revocation}").as_bytes()));
    r.count("kind[subscription-error-renewal-refused-for-good]", 1);
    r.sample(|| json!({"scenario": id, "kind": "subscription-error-renewal-refused-for-good", "recovery_by": how, "revocations": revs.len(), "tower_requests": tower.state.lock().unwrap().log.len()}));
    plugin.kill().await;
    let _ = std::fs::remove_dir_all(&dir);
}

/// A revocation arrives while the retrier is in the middle of its (slow) last delivery, and the tower fails again right after
/// that delivery: the data of the new revocation is pending and undelivered, so the tower must not be shown reachable.
async fn scenario_c13_mid_delivery(id: u64, mut plugin: Plugin, tower: Arc<FakeTower>, tid: String, mut rng: Rng, dir: PathBuf, replay: Value, r: &mut PropReport, bound_s: u64) {
    let ctx = format!("scenario {id} (revocation-mid-delivery)");
    tower.set_up(false);
    let mut revs = Vec::new();
    let rev = revocation(&mut rng, 1);
    if plugin.revoke(&rev, HOOK_TIMEOUT).await.is_err() {
        r.violation("C13:hook-unanswered", format!("{ctx}: a notification was not answered while the tower was down; stderr {:?}", plugin.panic_text()), replay.clone());
        plugin.kill().await;
        return;
    }
    revs.push(rev);
    {
        let mut st = tower.state.lock().unwrap();
        st.add_delay_ms = 1200;
        st.add.clear();
        st.add.push_back(Beh::Accept);
        st.default_add = Beh::NonJson;
    }
    let seen0 = tower.state.lock().unwrap().adds_seen;
    tower.set_up(true);
    let t_w = Instant::now();
    while tower.state.lock().unwrap().adds_seen == seen0 && t_w.elapsed() < Duration::from_secs(bound_s) {
        tokio::time::sleep(Duration::from_millis(20)).await;
    }
    if tower.state.lock().unwrap().adds_seen == seen0 {
        // the retry never reached the tower inside the bound: other scenarios judge that; nothing to observe here
        r.inconclusive += 1;
        r.note(format!("{ctx}: the retrier did not reach the tower within {bound_s}s"));
        plugin.kill().await;
        let _ = std::fs::remove_dir_all(&dir);
        return;
    }
    // the first delivery is being answered (1.2 s); the second revocation lands shortly before the answer
    tokio::time::sleep(Duration::from_millis(1000)).await;
    let rev = revocation(&mut rng, 2);
    if plugin.revoke(&rev, HOOK_TIMEOUT).await.is_err() {
        r.violation("C13:hook-unanswered", format!("{ctx}: a notification arriving during a delivery was not answered; stderr {:?}", plugin.panic_text()), replay.clone());
        plugin.kill().await;
        return;
    }
    revs.push(rev);
    // from now on the tower answers garbage: whatever is still pending stays pending. Shown reachable with data pending for
    // more than a moment (600 ms of consecutive observations) = untruthful status
    let t_w = Instant::now();
    let mut bad_since: Option<Instant> = None;
    let mut observed = 0u64;
    while t_w.elapsed() < Duration::from_millis(3000) {
        if let Some((st, pend)) = tower_status(&mut plugin, &tid).await {
            observed += 1;
            if st == "reachable" && pend > 0 {
                let since = *bad_since.get_or_insert_with(Instant::now);
                if since.elapsed() > Duration::from_millis(600) {
                    let acc = tower.state.lock().unwrap().accepted.len();
                    r.violation("C13:reachable-with-pending-while-failing", format!("{ctx}: a revocation arrived while the retrier was delivering its last appointment and the tower failed again right after; for more than 600 ms the tower has been shown as reachable with {pend} pending appointments ({acc} of {} accepted by the tower, which answers garbage now)", revs.len()), replay.clone());
                    break;
                }
            } else {
                bad_since = None;
            }
        }
        tokio::time::sleep(Duration::from_millis(50)).await;
    }
    r.count("mid_delivery_status_observations", observed);
    // recovery: everything is delivered within the bound
    {
        let mut st = tower.state.lock().unwrap();
        st.add_delay_ms = 0;
        st.add.clear();
        st.default_add = Beh::Accept;
    }
    let t_rec = Instant::now();
    let mut last = None;
    let mut ok = false;
    while t_rec.elapsed() < Duration::from_secs(bound_s + 4) {
        tokio::time::sleep(Duration::from_millis(400)).await;
        last = tower_status(&mut plugin, &tid).await;
        if last.as_ref().map(|s| (s.0.as_str(), s.1)) == Some(("reachable", 0)) {
            ok = true;
            break;
        }
    }
    if !ok && plugin.alive() {
        r.violation("C13:not-delivered:revocation-mid-delivery", format!("{ctx}: {}s after the tower works again it is shown as {last:?}; stderr {:?}", bound_s + 4, plugin.panic_text()), replay.clone());
    }
    if let Some(pt) = plugin.panic_text() {
        r.violation("C13:panic", format!("{ctx}: {pt}"), replay.clone());
    }
    r.nontrivial(fnv(format!("{id}:revocation-mid-delivery").as_bytes()));
    r.count("kind[revocation-mid-delivery]", 1);
    plugin.kill().await;
    let _ = std::fs::remove_dir_all(&dir);
}

async fn scenario_c13(seed: u64, id: u64, base: &Path, r: &mut PropReport) {
    let mut rng = Rng::stream(seed, 0xC13, id);
    let dir = base.join(format!("c13-{id}"));
    let _ = std::fs::remove_dir_all(&dir);
    let max_retry = 2 + rng.below(2);
    let auto_delay = 3 + rng.below(2);
    let opts = PluginOpts { max_retry_time: max_retry, auto_retry_delay: auto_delay, max_interval: 1, abort_at: None };
    let replay = json!({"engine":"e4","family":"c13","seed":seed,"scenario":id});
    let mut plugin = match Plugin::start(&dir, &opts).await {
        Ok(p) => p,
        Err(e) => {
            r.inconclusive += 1;
            r.note(format!("c13 scenario {id}: plugin did not start: {e}"));
            return;
        }
    };
    r.eval();
    let tower = FakeTower::start(&mut rng).await;
    let tid = hex::encode(tower.id.to_vec());
    if plugin.call("registertower", json!([format!("{tid}@127.0.0.1:{}", tower.port)]), 20).await.is_err() {
        r.inconclusive += 1;
        plugin.kill().await;
        return;
    }
    if id % 8 == 2 {
        return scenario_c13_mid_delivery(id, plugin, tower, tid, rng, dir, replay, r, max_retry + auto_delay + 2 + 8).await;
    }
    // error kind while the tower "keeps failing"
    let mut kind = rng.below(6);
    if id % 6 == 5 {
        kind = 6;
    }
    let kind_name = ["connection-refused", "subscription-error-then-renewable", "garbage-replies", "connection-refused+restart", "rejection", "connection-refused-then-garbage", "subscription-error-renewal-refused-for-good"][kind as usize];
    // when does the tower recover (seconds after the first failure)? spans: first interval, between retries,
    // around give-up, during idle, after the auto-retry fired
    let recover_after_ms = *rng.pick(&[300u64, 900, 1600, 2400, 3200, 4500, 6000, 7500]);
    let manual_retry = rng.chance(1, 3);
    let ctx = format!("scenario {id} ({kind_name}, recovery after {recover_after_ms} ms, max-retry-time {max_retry}s, auto-retry-delay {auto_delay}s)");
    match kind {
        0 | 3 | 5 => tower.set_up(false),
        1 => tower.state.lock().unwrap().default_add = Beh::SubscriptionError,
        6 => {
            // the subscription has run out and the tower answers the renewal with a correctly signed receipt that
            // does not extend it: a permanent failure of the retry (the retrier ends up `failed`)
            let mut st = tower.state.lock().unwrap();
            st.default_add = Beh::SubscriptionError;
            st.default_register = Beh::Mutated("expiry".into(), "not-extending".into());
        }
        2 => tower.state.lock().unwrap().default_add = Beh::NonJson,
        _ => tower.state.lock().unwrap().default_add = Beh::ApiError(4),
    }
    let mut revs = Vec::new();
    let t0 = Instant::now();
    let n_first = 1 + rng.usize(2);
    for k in 0..n_first {
        let rev = revocation(&mut rng, k as u32 + 1);
        if plugin.revoke(&rev, HOOK_TIMEOUT).await.is_err() {
            r.violation("C13:hook-unanswered", format!("{ctx}: a notification was not answered while the tower was failing; stderr {:?}", plugin.panic_text()), replay.clone());
            plugin.kill().await;
            return;
        }
        revs.push(rev);
    }
    if kind == 4 {
        // plain rejections are final: nothing pending, the tower stays reachable, no retry loop
        tokio::time::sleep(Duration::from_millis(1500)).await;
        let st = tower_status(&mut plugin, &tid).await;
        if st.as_ref().map(|s| (s.0.as_str(), s.1)) != Some(("reachable", 0)) {
            r.violation("C13:status-after-rejection", format!("{ctx}: after rejected appointments the tower is shown as {st:?}"), replay.clone());
        }
        r.nontrivial(fnv(format!("{id}:{kind_name}").as_bytes()));
        r.count(&format!("kind[{kind_name}]"), 1);
        plugin.kill().await;
        let _ = std::fs::remove_dir_all(&dir);
        return;
    }
    // more revocations arrive while the retrier is in various states; optional client restart
    let mut next_n = 10u32;
    let mut restarted = false;
    loop {
        let el = t0.elapsed().as_millis() as u64;
        if el >= recover_after_ms {
            break;
        }
        tokio::time::sleep(Duration::from_millis(350.min(recover_after_ms - el))).await;
        if rng.chance(1, 4) {
            let rev = revocation(&mut rng, next_n);
            next_n += 1;
            if plugin.revoke(&rev, HOOK_TIMEOUT).await.is_err() {
                r.violation("C13:hook-unanswered", format!("{ctx}: a notification arriving while the tower is being retried was not answered; stderr {:?}", plugin.panic_text()), replay.clone());
                plugin.kill().await;
                return;
            }
            revs.push(rev);
        }
        if kind == 3 && !restarted && t0.elapsed().as_millis() as u64 > recover_after_ms / 2 {
            restarted = true;
            plugin.kill().await;
            plugin = match Plugin::start(&dir, &opts).await {
                Ok(p) => p,
                Err(e) => {
                    r.violation("C13:restart-failed", format!("{ctx}: {e}"), replay.clone());
                    return;
                }
            };
        }
    }
    if kind == 6 {
        return scenario_c13_failed_retrier(id, &ctx, plugin, tower, tid, revs, next_n, rng, dir, replay, r, max_retry + auto_delay + 2 + 8).await;
    }
    // while it keeps failing: no flood, data retained
    let fl = {
        let st = tower.state.lock().unwrap();
        flood(&st.log)
    };
    if let Some((loc, n)) = fl {
        r.violation("C13:flood", format!("{ctx}: {n} requests for locator {loc} reached the tower within one second while it kept failing (the back-off's fastest legitimate repeat is a few per second)"), replay.clone());
        plugin.kill().await;
        return;
    }
    let gave_up = t0.elapsed().as_secs() > max_retry + 2;
    if gave_up && !restarted {
        // settled: the tower must be shown unreachable (or subscription error) with its data retained
        let want = if kind == 1 { ["subscription_error", "unreachable"] } else { ["unreachable", "unreachable"] };
        // the give-up instant is the product's wall-clock business (back-off in seconds): on a loaded machine it may
        // come late, so the status is given a generous extra 12 s to settle before it is judged
        let mut seen = tower_status(&mut plugin, &tid).await;
        let t_wait = Instant::now();
        while seen.as_ref().map_or(true, |s| !want.contains(&s.0.as_str())) && t_wait.elapsed() < Duration::from_secs(12) {
            tokio::time::sleep(Duration::from_millis(500)).await;
            seen = tower_status(&mut plugin, &tid).await;
        }
        if let Some((st, pend)) = seen {
            if !want.contains(&st.as_str()) || pend != revs.len() {
                r.violation("C13:status-while-failing", format!("{ctx}: after the retry strategy gave up the tower is shown as {st} with {pend} pending appointments ({} were notified)", revs.len()), replay.clone());
            }
            r.count("give_up_states_checked", 1);
        }
        // a renewal of the registration while the tower keeps failing (its register endpoint works, its
        // add_appointment endpoint answers garbage) must not make the client forget that it has data to deliver
        if kind == 2 && plugin.alive() {
            let before = tower_status(&mut plugin, &tid).await;
            let renewed = plugin.call("registertower", json!([format!("{tid}@127.0.0.1:{}", tower.port)]), 20).await.is_ok();
            let after = tower_status(&mut plugin, &tid).await;
            if renewed {
                r.count("renewals_while_failing_checked", 1);
                if let (Some(b), Some(a)) = (before, after) {
                    if a.0 == "reachable" && a.1 > 0 && b.0 != "reachable" {
                        r.violation("C13:reachable-with-pending-after-renewal", format!("{ctx}: the registration was renewed while the tower kept answering garbage to add_appointment; the tower went from {b:?} to {a:?}: shown reachable with data pending and no retry running"), replay.clone());
                    }
                }
            }
        }
    }
    // a manual retry while the tower is still failing: the retrier starts from what the database holds, fails again, and at no
    // moment may the tower be shown reachable while it has data pending (nothing is delivered: the tower has not answered one
    // add_appointment properly since the outage began, and no revocation arrives in this window)
    if gave_up && !restarted && kind != 1 && kind != 2 && plugin.alive() {
        let accepted = plugin.call("retrytower", json!([tid]), 10).await.is_ok();
        r.count(if accepted { "manual_retries_while_failing" } else { "manual_retries_while_failing_refused" }, 1);
        let t_w = Instant::now();
        while t_w.elapsed() < Duration::from_millis(2500) {
            if let Some((st, pend)) = tower_status(&mut plugin, &tid).await {
                if st == "reachable" && pend > 0 {
                    r.violation("C13:reachable-with-pending-while-failing", format!("{ctx}: retrytower was asked while the tower was still failing; the tower is shown as reachable with {pend} pending appointments although it has not accepted anything since the outage began"), replay.clone());
                    break;
                }
            }
            tokio::time::sleep(Duration::from_millis(60)).await;
        }
    }
    // ---- recovery
    if kind == 5 {
        // the tower is back but answers garbage for a while before it really works again
        tower.state.lock().unwrap().default_add = Beh::NonJson;
        tower.set_up(true);
        let wait = if gave_up { auto_delay * 1000 + 1500 } else { 1500 };
        tokio::time::sleep(Duration::from_millis(wait)).await;
        let fl = {
            let st = tower.state.lock().unwrap();
            flood(&st.log)
        };
        if let Some((loc, n)) = fl {
            r.violation("C13:flood", format!("{ctx}: {n} requests for locator {loc} reached the tower within one second while it answered garbage"), replay.clone());
            plugin.kill().await;
            return;
        }
    }
    tower.set_up(true);
    {
        let mut st = tower.state.lock().unwrap();
        st.default_add = Beh::Accept;
        st.add.clear();
    }
    let t_rec = Instant::now();
    if manual_retry && gave_up {
        // manual retry in a settled state: idle retrier / no retrier + unreachable => accepted
        tokio::time::sleep(Duration::from_millis(1200)).await;
        let res = plugin.call("retrytower", json!([tid]), 10).await;
        r.count("manual_retries", 1);
        if let Err(CallErr::Rpc(e)) = &res {
            let st = tower_status(&mut plugin, &tid).await;
            // refused is only right if a retry is already running (auto-retry fired meanwhile)
            if !e.to_string().contains("already being retried") && !st.as_ref().map_or(false, |s| s.0 == "reachable") {
                r.violation("C13:manual-retry-refused", format!("{ctx}: retrytower was refused ({e}) although the tower was shown as {st:?}"), replay.clone());
            }
        }
    }
    let bound = Duration::from_secs(max_retry + auto_delay + 2 + 8);
    let mut ok = false;
    let mut last = None;
    while t_rec.elapsed() < bound {
        tokio::time::sleep(Duration::from_millis(400)).await;
        last = tower_status(&mut plugin, &tid).await;
        if last.as_ref().map(|s| (s.0.as_str(), s.1)) == Some(("reachable", 0)) {
            ok = true;
            break;
        }
        // new revocations may arrive during recovery as well
        if rng.chance(1, 10) {
            let rev = revocation(&mut rng, next_n);
            next_n += 1;
            if plugin.revoke(&rev, HOOK_TIMEOUT).await.is_ok() {
                revs.push(rev);
            }
        }
    }
    let delivered_ms = t_rec.elapsed().as_millis() as u64;
    if !ok {
        if std::env::var("TV_DEBUG").is_ok() {
            eprintln!("--- plugin logs of scenario {id}:");
            for l in plugin.logs.lock().unwrap().iter() {
                eprintln!("   {l}");
            }
            eprintln!("--- tower log:");
            for l in tower.state.lock().unwrap().log.iter() {
                eprintln!("   {:?} {} {:?} {}", l.t.duration_since(t0), l.endpoint, l.locator, l.beh);
            }
        }
        r.violation(
            format!("C13:not-delivered:{kind_name}"),
            format!("{ctx}: {}s after the tower recovered (bound: max-retry-time + auto-retry-delay + 2 max-intervals + 8s slack) the tower is shown as {last:?}; {} requests reached it since; stderr {:?}", bound.as_secs(), tower.state.lock().unwrap().log.iter().filter(|l| l.t > t_rec).count(), plugin.panic_text()),
            replay.clone(),
        );
    } else {
        // everything notified is acknowledged with a verifying receipt
        if let Some((sig, detail)) = check_records(&dir, &[tower.clone()], &revs, &ctx) {
            r.violation(sig.replace("C05:", "C13:after-recovery:"), detail, replay.clone());
        } else {
            let rows = read_rows(&dir);
            let missing = revs.iter().filter(|rv| !rows.as_ref().map_or(false, |x| x.receipts.contains_key(&(rv.locator.clone(), tid.clone())))).count();
            if missing > 0 {
                r.violation("C13:not-acknowledged", format!("{ctx}: the tower is shown reachable with nothing pending, but {missing} notified appointments have no stored receipt"), replay.clone());
            }
        }
        r.count("recoveries_delivered", 1);
        r.max("max_delivery_ms_after_recovery", delivered_ms);
        // ---- flap: the tower fails again right after the retrier has delivered (its bookkeeping for that tower is
        // between "done" and "cleaned up"), one more revocation arrives, and the tower is back a moment later
        if id % 2 == 0 && plugin.alive() {
            tower.set_up(false);
            let rev = revocation(&mut rng, next_n + 500);
            let answered = plugin.revoke(&rev, HOOK_TIMEOUT).await.is_ok();
            tokio::time::sleep(Duration::from_millis(250)).await;
            tower.set_up(true);
            if answered {
                revs.push(rev);
                let t_flap = Instant::now();
                let mut ok2 = false;
                let mut last2 = None;
                while t_flap.elapsed() < bound {
                    tokio::time::sleep(Duration::from_millis(400)).await;
                    last2 = tower_status(&mut plugin, &tid).await;
                    if last2.as_ref().map(|s| (s.0.as_str(), s.1)) == Some(("reachable", 0)) {
                        ok2 = true;
                        break;
                    }
                }
                r.count("flaps_after_recovery_checked", 1);
                if !ok2 {
                    r.violation(format!("C13:not-delivered:flap-after-recovery"), format!("{ctx}: the tower went down again right after the retrier had delivered, one more revocation arrived, the tower came back 250 ms later; {}s later the tower is shown as {last2:?} ({} requests reached it since the flap); stderr {:?}", bound.as_secs(), tower.state.lock().unwrap().log.iter().filter(|l| l.t > t_flap).count(), plugin.panic_text()), replay.clone());
                } else if let Some((sig, detail)) = check_records(&dir, &[tower.clone()], &revs, &ctx) {
                    r.violation(sig.replace("C05:", "C13:after-flap:"), detail, replay.clone());
                }
            }
        }
    }
    if let Some(o) = trace_overlaps(&plugin.trace) {
        r.violation("C13:overlapping-retry-loops", format!("{ctx}: {o}"), replay.clone());
    }
    let fl = {
        let st = tower.state.lock().unwrap();
        flood(&st.log)
    };
    if let Some((loc, n)) = fl {
        r.violation("C13:flood", format!("{ctx}: {n} requests for locator {loc} within one second"), replay.clone());
    }
    if let Some(pt) = plugin.panic_text() {
        r.violation("C13:panic", format!("{ctx}: {pt}"), replay.clone());
    }
    r.nontrivial(fnv(format!("{id}:{kind_name}:{recover_after_ms}:{manual_retry}").as_bytes()));
    r.count(&format!("kind[{kind_name}]"), 1);
    r.sample(|| json!({"scenario": id, "kind": kind_name, "recover_after_ms": recover_after_ms, "manual_retry": manual_retry, "revocations": revs.len(), "delivered_ms_after_recovery": delivered_ms, "tower_requests": tower.state.lock().unwrap().log.len()}));
    plugin.kill().await;
    let _ = std::fs::remove_dir_all(&dir);
}

// ------------------------------------------------------------------------------------------------

pub fn run(family: &str, seed: u64, shard: u64, nshards: u64, scenarios: u64, parallel: usize, only: Option<u64>, rep: &mut Report) {
    let base = PathBuf::from(format!("/dev/shm/tv-e4-{}", std::process::id()));
    std::fs::create_dir_all(&base).unwrap();
    let prop = match family {
        "c05" => "C05",
        "c13" => "C13",
        _ => "C14",
    };
    if !client_bin().exists() {
        rep.p(prop).inconclusive += 1;
        rep.p(prop).note(format!("client binary {} not built", client_bin().display()));
        return;
    }
    let rt = tokio::runtime::Builder::new_multi_thread().worker_threads(4).enable_all().build().unwrap();
    let ids: Vec<u64> = match only {
        Some(i) => vec![i],
        None => (0..scenarios).map(|i| shard + i * nshards).collect(),
    };
    let results: Vec<PropReport> = rt.block_on(async {
        let sem = Arc::new(tokio::sync::Semaphore::new(parallel.max(1)));
        let mut handles = Vec::new();
        for id in ids {
            let permit = sem.clone().acquire_owned().await.unwrap();
            let base = base.clone();
            let family = family.to_string();
            handles.push(tokio::spawn(async move {
                let mut r = PropReport::new();
                let fut = async {
                    match family.as_str() {
                        "c05" => scenario_c05(seed, id, &base, &mut r).await,
                        "c13" => scenario_c13(seed, id, &base, &mut r).await,
                        _ => scenario_c14(seed, id, &base, &mut r).await,
                    }
                };
                if tokio::time::timeout(Duration::from_secs(240), fut).await.is_err() {
                    r.inconclusive += 1;
                    r.note(format!("{family} scenario {id}: watchdog"));
                }
                drop(permit);
                r
            }));
        }
        let mut out = Vec::new();
        for h in handles {
            if let Ok(r) = h.await {
                out.push(r);
            }
        }
        out
    });
    let agg = rep.p(prop);
    for r in results {
        agg.evaluations += r.evaluations;
        agg.inconclusive += r.inconclusive;
        for h in r.nontrivial {
            agg.nontrivial(h);
        }
        for (k, v) in r.counters {
            if k.starts_with("max_") {
                agg.max(&k, v);
            } else if !k.starts_with("violations[") {
                agg.count(&k, v);
            }
        }
        for s in r.samples {
            agg.sample(|| s);
        }
        for n in r.notes {
            agg.note(n);
        }
        for v in r.violations {
            agg.violation(v.sig, v.detail, v.replay);
        }
    }
    drop(rt);
    let _ = std::fs::remove_dir_all(&base);
    let _ = VecDeque::<u8>::new();
}
