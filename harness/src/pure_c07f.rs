//! C07 (formula part) — the slot formula for every blob length up to the gRPC transport limit,
//! against integer arithmetic.

use crate::report::Report;
use serde_json::json;
use teos_common::appointment::compute_appointment_slots;
use teos_common::constants::ENCRYPTED_BLOB_MAX_SIZE;

pub const TRANSPORT_LIMIT: usize = 4 * 1024 * 1024;

pub fn run(rep: &mut Report) {
    let r = rep.p("C07");
    r.eval();
    r.nontrivial(0xC07F);
    r.nontrivial(0xC07F + 1);
    let mut bad_zero = 0u64;
    let mut bad_other = 0u64;
    let mut first_other = None;
    for len in 0..=TRANSPORT_LIMIT {
        let got = compute_appointment_slots(len, ENCRYPTED_BLOB_MAX_SIZE) as u64;
        let want = std::cmp::max(1, (len as u64 + 2047) / 2048);
        r.count("formula_lengths_checked", 1);
        if got != want {
            if len == 0 {
                bad_zero += 1;
            } else {
                bad_other += 1;
                first_other.get_or_insert((len, got, want));
            }
        }
    }
    if bad_zero > 0 {
        r.violation("C07:zero-slot:blob_len=0", "compute_appointment_slots(0) = 0: an empty blob occupies no slot (the statement says never less than one)", json!({"engine":"c07f","len":0}));
    }
    if let Some((len, got, want)) = first_other {
        r.violation("C07:formula", format!("compute_appointment_slots({len}) = {got}, ceil(len/2048) = {want} ({bad_other} lengths disagree)"), json!({"engine":"c07f","len":len}));
    }
}
