//! E2 observer: every hooked lock acquisition / release / condvar wait of the tower goes through
//! here. It mediates lock ownership itself (the inner std mutexes never block), which gives
//!  - a serialising, seeded PCT-style scheduler (one runnable thread at a time; every sync point is
//!    a scheduling point; a bounded number of priority change points),
//!  - a free-running mode (real parallelism + seeded delays at sync points),
//!  - deterministic detection of circular waits / stuck states (no enabled thread), no timeouts,
//!  - the lock-order graph (edges labelled with thread class and gate locks).

use crate::rng::Rng;
use std::cell::Cell;
use std::collections::{BTreeMap, BTreeSet, HashMap};
use std::sync::{Arc, Condvar, Mutex};
use teos_common::verif::{LockId, Observer};

/// Payload used to unwind worker threads out of a deadlocked / aborted scenario.
pub struct SchedAbort;

thread_local! {
    static TID: Cell<Option<usize>> = const { Cell::new(None) };
}

#[derive(Clone, Debug, PartialEq, Eq)]
pub enum Status {
    /// registered, not started yet / runnable
    Ready,
    Running,
    WantLock(LockId),
    /// `timed`: a bounded wait; it ends when the harness advances the virtual clock past `since_tick`
    CvWait { cv: usize, notified: bool, timed: Option<u64> },
    /// waiting for a command of the harness (not blocked by the tower)
    Idle,
    Finished,
}

#[derive(Clone, Debug)]
pub struct TInfo {
    pub name: String,
    pub class: String,
    pub status: Status,
    pub held: Vec<LockId>,
    pub prio: u64,
    /// the mutex of the condvar wait this thread last entered
    pub cv_lock: Option<LockId>,
}

#[derive(Clone, Debug, PartialEq, Eq, PartialOrd, Ord)]
pub struct Edge {
    pub from: String,
    pub to: String,
    pub class: String,
    pub gates: Vec<String>,
}

#[derive(Clone, Debug)]
pub struct Stuck {
    /// per thread: (name, class, held lock classes, what it waits for)
    pub threads: Vec<(String, String, Vec<String>, String)>,
    /// lock classes on the circular wait (empty if the stuck state is not a pure lock cycle)
    pub cycle: Vec<String>,
}

pub struct SState {
    pub threads: Vec<TInfo>,
    owner: HashMap<usize, usize>,
    current: Option<usize>,
    pub serial: bool,
    pub decisions: Vec<String>,
    steps: usize,
    change_points: Vec<usize>,
    rng: Rng,
    pub stuck: Option<Stuck>,
    aborted: bool,
    pub edges: BTreeSet<Edge>,
    pub switches: u64,
    /// distinct (thread class, lock class) -> (other thread class, lock class) adjacent pairs
    pub interleaved_pairs: BTreeSet<(String, String)>,
    last_sync: Option<(usize, String)>,
    delay_permille: u64,
    /// classes whose acquisition must be held back (used to drive predicted cycles): thread name ->
    /// lock class after whose acquisition the thread pauses until released by `resume_all`
    pub hold_after: BTreeMap<String, String>,
    held_back: BTreeSet<usize>,
    /// scripted (reference) schedule: thread names, one per segment; a segment ends when the thread
    /// reaches a block boundary or finishes
    pub script: Option<Vec<String>>,
    script_pos: usize,
    /// virtual clock for bounded condvar waits; only the harness advances it
    pub tick: u64,
    /// the harness judges progress itself (bounded-progress protocols): do not abort on a stuck state
    pub no_auto_stuck: bool,
}

pub struct Sched {
    st: Mutex<SState>,
    cv: Condvar,
}

fn short(class: &str) -> String {
    // protected type name -> the field it guards in the tower
    let c = class.replace("alloc::", "").replace("std::collections::hash::", "");
    if c.contains("UserId") && c.contains("UserInfo") {
        "gatekeeper.registered_users".into()
    } else if c.contains("TxIndex<") && c.contains("Locator") {
        "watcher.locator_cache".into()
    } else if c.contains("TxIndex<") {
        "responder.tx_index".into()
    } else if c.ends_with("Carrier") {
        "responder.carrier".into()
    } else if c.ends_with("DBM") {
        "dbm".into()
    } else if c.contains("HashSet") {
        "responder.reorged_trackers".into()
    } else if c == "bool" {
        "bitcoind_reachable".into()
    } else {
        c
    }
}

impl Sched {
    pub fn new(seed: u64, serial: bool, preemptions: usize, horizon: usize, delay_permille: u64) -> Arc<Sched> {
        let mut rng = Rng::new(seed);
        let mut change_points: Vec<usize> = (0..preemptions).map(|_| 1 + rng.usize(horizon.max(1))).collect();
        change_points.sort();
        Arc::new(Sched {
            st: Mutex::new(SState {
                threads: Vec::new(),
                owner: HashMap::new(),
                current: None,
                serial,
                decisions: Vec::new(),
                steps: 0,
                change_points,
                rng,
                stuck: None,
                aborted: false,
                edges: BTreeSet::new(),
                switches: 0,
                interleaved_pairs: BTreeSet::new(),
                last_sync: None,
                delay_permille,
                hold_after: BTreeMap::new(),
                held_back: BTreeSet::new(),
                script: None,
                script_pos: 0,
                tick: 0,
                no_auto_stuck: false,
            }),
            cv: Condvar::new(),
        })
    }

    fn lock(&self) -> std::sync::MutexGuard<'_, SState> {
        self.st.lock().unwrap_or_else(|e| e.into_inner())
    }

    pub fn state<R>(&self, f: impl FnOnce(&mut SState) -> R) -> R {
        f(&mut self.lock())
    }

    /// Declares a tower thread of the given class ("api" / "chain"); ids are handed out in call order.
    pub fn add_thread(&self, name: &str, class: &str) -> usize {
        let mut st = self.lock();
        let prio = st.rng.next_u64() | (1 << 40);
        st.threads.push(TInfo { name: name.to_string(), class: class.to_string(), status: Status::Ready, held: vec![], prio, cv_lock: None });
        st.threads.len() - 1
    }

    /// Binds the calling OS thread to a declared tower thread.
    pub fn attach(&self, tid: usize) {
        TID.with(|t| t.set(Some(tid)));
    }

    pub fn register(&self, name: &str, class: &str) -> usize {
        let tid = self.add_thread(name, class);
        self.attach(tid);
        tid
    }

    fn enabled(st: &SState, t: usize) -> bool {
        if st.held_back.contains(&t) {
            return false;
        }
        match &st.threads[t].status {
            Status::Ready | Status::Running => true,
            Status::WantLock(l) => !st.owner.contains_key(&l.id),
            Status::CvWait { notified, timed, .. } => *notified || timed.map_or(false, |t| st.tick > t),
            Status::Idle | Status::Finished => false,
        }
    }

    fn detect_stuck(st: &mut SState) {
        if st.stuck.is_some() {
            return;
        }
        let unfinished: Vec<usize> = (0..st.threads.len()).filter(|t| !matches!(st.threads[*t].status, Status::Finished | Status::Idle)).collect();
        if unfinished.is_empty() {
            return;
        }
        // threads parked by the cycle driver count as blocked only if everyone else is blocked too
        if unfinished.iter().any(|t| Self::enabled(st, *t)) {
            return;
        }
        if unfinished.iter().any(|t| matches!(st.threads[*t].status, Status::CvWait { timed: Some(_), .. })) {
            // a bounded wait ends by itself once (virtual) time passes
            return;
        }
        if st.no_auto_stuck {
            return;
        }
        if !st.held_back.is_empty() {
            // release the parked threads first: the state is only stuck if it stays so
            return;
        }
        // find a lock cycle
        let mut cycle = Vec::new();
        'outer: for start in &unfinished {
            let mut seen = vec![*start];
            let mut cur = *start;
            let mut classes = Vec::new();
            loop {
                let want = match &st.threads[cur].status {
                    Status::WantLock(l) => *l,
                    _ => break,
                };
                classes.push(short(want.class));
                let o = match st.owner.get(&want.id) {
                    Some(o) => *o,
                    None => break,
                };
                if o == *start {
                    cycle = classes;
                    break 'outer;
                }
                if seen.contains(&o) {
                    break;
                }
                seen.push(o);
                cur = o;
            }
        }
        let threads = unfinished
            .iter()
            .map(|t| {
                let ti = &st.threads[*t];
                let waits = match &ti.status {
                    Status::WantLock(l) => format!("lock {}", short(l.class)),
                    Status::CvWait { .. } => "condvar bitcoind_reachable (not notified)".to_string(),
                    s => format!("{s:?}"),
                };
                (ti.name.clone(), ti.class.clone(), ti.held.iter().map(|l| short(l.class)).collect(), waits)
            })
            .collect();
        st.stuck = Some(Stuck { threads, cycle });
        st.aborted = true;
    }

    /// Picks who runs next (serial mode). Called with the state locked.
    fn pick(st: &mut SState) {
        let en: Vec<usize> = (0..st.threads.len()).filter(|t| Self::enabled(st, *t)).collect();
        if en.is_empty() {
            st.current = None;
            Self::detect_stuck(st);
            return;
        }
        if let Some(script) = st.script.clone() {
            while st.script_pos < script.len() {
                let want = &script[st.script_pos];
                match (0..st.threads.len()).find(|t| &st.threads[*t].name == want) {
                    Some(t) if st.threads[t].status == Status::Finished => st.script_pos += 1,
                    Some(t) if en.contains(&t) => {
                        st.current = Some(t);
                        return;
                    }
                    _ => break,
                }
            }
        }
        st.steps += 1;
        if st.change_points.first() == Some(&st.steps) {
            st.change_points.remove(0);
            // the running (highest priority enabled) thread drops below everybody else
            if let Some(top) = en.iter().max_by_key(|t| st.threads[**t].prio).cloned() {
                let low = st.threads.iter().map(|t| t.prio).min().unwrap_or(1);
                st.threads[top].prio = low.saturating_sub(1 + st.steps as u64);
            }
        }
        let next = *en.iter().max_by_key(|t| st.threads[**t].prio).unwrap();
        if st.current != Some(next) && st.current.is_some() {
            st.switches += 1;
        }
        st.current = Some(next);
    }

    /// Scheduling point of thread `me` (serial mode): hands the baton over and waits to get it back.
    fn yield_point<'a>(&'a self, mut st: std::sync::MutexGuard<'a, SState>, me: usize) -> std::sync::MutexGuard<'a, SState> {
        Self::pick(&mut st);
        self.cv.notify_all();
        loop {
            if st.aborted {
                drop(st);
                std::panic::panic_any(SchedAbort);
            }
            if st.current == Some(me) && Self::enabled(&st, me) {
                return st;
            }
            if st.current.is_none() || !Self::enabled(&st, st.current.unwrap()) {
                // nobody holds the baton (e.g. a parked thread was released): pick again
                Self::pick(&mut st);
                self.cv.notify_all();
                if st.current == Some(me) && Self::enabled(&st, me) {
                    return st;
                }
                if st.aborted {
                    continue;
                }
            }
            st = self.cv.wait(st).unwrap_or_else(|e| e.into_inner());
        }
    }

    /// Free-running mode: block until `cond` holds (or the scenario is aborted).
    fn wait_until<'a>(&'a self, mut st: std::sync::MutexGuard<'a, SState>, cond: impl Fn(&SState) -> bool) -> std::sync::MutexGuard<'a, SState> {
        loop {
            if st.aborted {
                drop(st);
                std::panic::panic_any(SchedAbort);
            }
            if cond(&st) {
                return st;
            }
            Self::detect_stuck(&mut st);
            if st.aborted {
                self.cv.notify_all();
                continue;
            }
            st = self.cv.wait(st).unwrap_or_else(|e| e.into_inner());
        }
    }

    fn record_sync(st: &mut SState, me: usize, what: &str) {
        let label = format!("{}@{}", st.threads[me].class, what);
        if let Some((t, prev)) = &st.last_sync {
            if *t != me {
                st.interleaved_pairs.insert((prev.clone(), label.clone()));
            }
        }
        st.last_sync = Some((me, label));
        let n = st.threads[me].name.clone();
        st.decisions.push(format!("{n}@{what}"));
    }

    // ---- harness-side thread lifecycle

    /// Worker threads call this before touching the tower: waits for the baton (serial mode).
    pub fn thread_start(&self) {
        let me = TID.with(|t| t.get()).expect("registered");
        let mut st = self.lock();
        st.threads[me].status = Status::Ready;
        if st.serial {
            // wait to be picked (the harness calls `go` once all workers are registered)
            loop {
                if st.aborted {
                    drop(st);
                    std::panic::panic_any(SchedAbort);
                }
                if st.current == Some(me) {
                    break;
                }
                st = self.cv.wait(st).unwrap_or_else(|e| e.into_inner());
            }
        }
        st.threads[me].status = Status::Running;
    }

    pub fn thread_finish(&self) {
        let me = match TID.with(|t| t.get()) {
            Some(m) => m,
            None => return,
        };
        let mut st = self.lock();
        st.threads[me].status = Status::Finished;
        if let Some(script) = &st.script {
            if st.script_pos < script.len() && script[st.script_pos] == st.threads[me].name {
                st.script_pos += 1;
            }
        }
        // anything it still "owns" (it unwound) is released
        let held: Vec<LockId> = std::mem::take(&mut st.threads[me].held);
        for l in held {
            if st.owner.get(&l.id) == Some(&me) {
                st.owner.remove(&l.id);
            }
        }
        if st.serial {
            Self::pick(&mut st);
        } else {
            Self::detect_stuck(&mut st);
        }
        self.cv.notify_all();
        TID.with(|t| t.set(None));
    }

    /// A registered thread goes idle (waits for a harness command) / comes back.
    pub fn set_idle(&self, idle: bool) {
        if let Some(me) = TID.with(|t| t.get()) {
            let mut st = self.lock();
            if idle {
                st.threads[me].status = Status::Idle;
                if st.serial {
                    Self::pick(&mut st);
                } else {
                    Self::detect_stuck(&mut st);
                }
                self.cv.notify_all();
            } else if st.serial {
                st.threads[me].status = Status::Ready;
                let mut st = self.yield_point(st, me);
                st.threads[me].status = Status::Running;
            } else {
                st.threads[me].status = Status::Running;
            }
        }
    }

    /// Block boundary on the chain thread (between two block events): a scheduling point, and the
    /// end of a segment of a scripted schedule.
    pub fn boundary(&self) {
        let me = match TID.with(|t| t.get()) {
            Some(m) => m,
            None => return,
        };
        let mut st = self.lock();
        if !st.serial {
            return;
        }
        if let Some(script) = &st.script {
            if st.script_pos < script.len() && script[st.script_pos] == st.threads[me].name {
                st.script_pos += 1;
            }
        }
        Self::record_sync(&mut st, me, "block-boundary");
        st.threads[me].status = Status::Ready;
        let mut st = self.yield_point(st, me);
        st.threads[me].status = Status::Running;
    }

    /// Serial mode: start the run once every worker has registered.
    pub fn go(&self) {
        let mut st = self.lock();
        Self::pick(&mut st);
        self.cv.notify_all();
    }

    pub fn abort(&self) {
        let mut st = self.lock();
        st.aborted = true;
        self.cv.notify_all();
    }

    /// Releases threads parked by `hold_after`.
    pub fn resume_all(&self) {
        let mut st = self.lock();
        st.held_back.clear();
        st.hold_after.clear();
        if st.serial && (st.current.is_none() || !Self::enabled(&st, st.current.unwrap())) {
            Self::pick(&mut st);
        }
        Self::detect_stuck(&mut st);
        self.cv.notify_all();
    }

    /// Lets (virtual) time pass: every bounded wait in progress times out.
    pub fn advance_time(&self) {
        let mut st = self.lock();
        st.tick += 1;
        if st.serial && (st.current.is_none() || !Self::enabled(&st, st.current.unwrap())) {
            Self::pick(&mut st);
        }
        self.cv.notify_all();
    }

    /// Whether the named thread cannot continue without somebody else's action: it waits for a
    /// notification, or for a lock whose owner is (transitively) blocked. Returns a description.
    pub fn blocked(&self, name: &str) -> Option<String> {
        let st = self.lock();
        let mut t = st.threads.iter().position(|x| x.name == name)?;
        let mut path = Vec::new();
        for _ in 0..st.threads.len() + 1 {
            let ti = &st.threads[t];
            if let (Status::CvWait { .. }, Some(cl)) = (&ti.status, &ti.cv_lock) {
                if st.owner.get(&cl.id) == Some(&t) {
                    // the wait has been announced but its mutex not released yet (or it is being left): the thread is
                    // running, and whoever wants that mutex gets it in a moment. (The announcement and the release are two
                    // steps of the hooked Condvar; a snapshot taken between them while the OS had descheduled the thread
                    // showed "request waits for the flag held by a waiter".)
                    return None;
                }
            }
            match &ti.status {
                Status::CvWait { notified: false, timed: Some(t), .. } if st.tick > *t => return None, // its bounded wait has expired: it is about to run
                Status::CvWait { notified: false, timed, .. } => {
                    path.push(format!("{} waits on the bitcoind_reachable condvar{} holding {:?}", ti.name, if timed.is_some() { " (bounded)" } else { "" }, ti.held.iter().map(|l| short(l.class)).collect::<Vec<_>>()));
                    return Some(path.join("; "));
                }
                Status::WantLock(l) => match st.owner.get(&l.id) {
                    Some(o) if *o == t => {
                        // a std Mutex locked again by the thread that holds it never returns
                        path.push(format!("{} wants {} which it holds itself (self-deadlock)", ti.name, short(l.class)));
                        return Some(path.join("; "));
                    }
                    Some(o) if *o != t => {
                        path.push(format!("{} wants {} held by {}", ti.name, short(l.class), st.threads[*o].name));
                        t = *o;
                    }
                    _ => return None,
                },
                _ => return None,
            }
        }
        Some(path.join("; "))
    }

    pub fn status_of(&self, name: &str) -> Option<Status> {
        let st = self.lock();
        st.threads.iter().find(|t| t.name == name).map(|t| t.status.clone())
    }

    pub fn schedule_hash(&self) -> u64 {
        let st = self.lock();
        crate::rng::fnv(st.decisions.join(",").as_bytes())
    }
}

impl Observer for Sched {
    fn before_acquire(&self, lock: LockId) {
        let me = match TID.with(|t| t.get()) {
            Some(m) => m,
            None => return,
        };
        let mut st = self.lock();
        st.threads[me].status = Status::WantLock(lock);
        Self::record_sync(&mut st, me, &short(lock.class));
        if st.serial {
            st = self.yield_point(st, me);
        } else {
            let p = st.delay_permille;
            if p > 0 && st.rng.below(1000) < p {
                let us = st.rng.below(200);
                drop(st);
                std::thread::sleep(std::time::Duration::from_micros(us));
                st = self.lock();
            }
            let id = lock.id;
            st = self.wait_until(st, move |s| !s.owner.contains_key(&id));
        }
        // reserve ownership under the observer's mutex: the inner lock is then uncontended
        st.owner.insert(lock.id, me);
        st.threads[me].status = Status::Running;
    }

    fn acquired(&self, lock: LockId) {
        let me = match TID.with(|t| t.get()) {
            Some(m) => m,
            None => return,
        };
        let mut st = self.lock();
        let class = st.threads[me].class.clone();
        let held: Vec<String> = st.threads[me].held.iter().map(|l| short(l.class)).collect();
        for (i, k) in held.iter().enumerate() {
            let gates: Vec<String> = held.iter().enumerate().filter(|(j, _)| *j != i).map(|(_, g)| g.clone()).collect();
            st.edges.insert(Edge { from: k.clone(), to: short(lock.class), class: class.clone(), gates });
        }
        st.threads[me].held.push(lock);
        // cycle driver: park this thread right after this acquisition
        let name = st.threads[me].name.clone();
        if st.hold_after.get(&name) == Some(&short(lock.class)) {
            st.hold_after.remove(&name);
            st.held_back.insert(me);
            if st.serial {
                let _st = self.yield_point(st, me);
            } else {
                let _st = self.wait_until(st, move |s| !s.held_back.contains(&me));
            }
        }
    }

    fn released(&self, lock: LockId) {
        let me = match TID.with(|t| t.get()) {
            Some(m) => m,
            None => return,
        };
        let mut st = self.lock();
        if st.owner.get(&lock.id) == Some(&me) {
            st.owner.remove(&lock.id);
        }
        if let Some(p) = st.threads[me].held.iter().rposition(|l| l.id == lock.id) {
            st.threads[me].held.remove(p);
        }
        let in_cv = matches!(st.threads[me].status, Status::CvWait { .. });
        if st.serial && !in_cv && !std::thread::panicking() && !st.aborted {
            // a release may enable a higher-priority thread
            st.threads[me].status = Status::Ready;
            let mut st = self.yield_point(st, me);
            st.threads[me].status = Status::Running;
        } else {
            self.cv.notify_all();
        }
    }

    fn takes_over_cv(&self) -> bool {
        TID.with(|t| t.get()).is_some()
    }

    fn cv_wait_begin(&self, cv: usize, lock: LockId) {
        if let Some(me) = TID.with(|t| t.get()) {
            let mut st = self.lock();
            st.threads[me].cv_lock = Some(lock);
            st.threads[me].status = Status::CvWait { cv, notified: false, timed: None };
            Self::record_sync(&mut st, me, "wait(bitcoind_reachable)");
        }
    }

    fn cv_block(&self, _cv: usize, _lock: LockId) {
        let me = match TID.with(|t| t.get()) {
            Some(m) => m,
            None => return,
        };
        let st = self.lock();
        let mut st = if st.serial {
            self.yield_point(st, me)
        } else {
            self.wait_until(st, move |s| matches!(s.threads[me].status, Status::CvWait { notified: true, .. }))
        };
        st.threads[me].status = Status::Running;
    }

    fn cv_block_timeout(&self, _cv: usize, _lock: LockId, _dur: std::time::Duration) -> bool {
        let me = match TID.with(|t| t.get()) {
            Some(m) => m,
            None => return false,
        };
        let mut st = self.lock();
        let since = st.tick;
        if let Status::CvWait { timed, .. } = &mut st.threads[me].status {
            *timed = Some(since);
        }
        let mut st = if st.serial {
            self.yield_point(st, me)
        } else {
            self.wait_until(st, move |s| match &s.threads[me].status {
                Status::CvWait { notified, timed, .. } => *notified || timed.map_or(false, |t| s.tick > t),
                _ => true,
            })
        };
        let timed_out = !matches!(st.threads[me].status, Status::CvWait { notified: true, .. });
        st.threads[me].status = Status::Running;
        timed_out
    }

    fn cv_notify(&self, cv: usize) {
        let mut st = self.lock();
        for t in st.threads.iter_mut() {
            if let Status::CvWait { cv: c, notified, .. } = &mut t.status {
                if *c == cv {
                    *notified = true;
                }
            }
        }
        self.cv.notify_all();
    }
}
