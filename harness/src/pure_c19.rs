//! C19 — recent-block look-ups equal the last N blocks of the active chain.
//! The real TxIndex (both instantiations used by the tower) against a list-of-blocks specification:
//! exhaustive over connect/disconnect sequences for small N, random for N = 6 and 100.

use crate::chain::ChainState;
use crate::gen;
use crate::report::Report;
use crate::rng::{fnv, Rng};
use bitcoin::block::{Header, Version};
use bitcoin::hashes::Hash;
use bitcoin::{BlockHash, Transaction, Txid};
use lightning_block_sync::poll::{Validate, ValidatedBlock};
use lightning_block_sync::BlockData;
use serde_json::json;
use std::collections::{HashMap, VecDeque};
use teos::verif_export::TxIndex;
use teos_common::appointment::Locator;

#[derive(Clone, Debug)]
struct MBlock {
    hash: BlockHash,
    header: Header,
    height: u32,
    txs: Vec<Transaction>,
}

/// The specification: the active chain as a list of blocks plus the retained window (a deque of at
/// most N blocks: push on connect, drop the oldest beyond N, pop on disconnect).
struct Spec {
    n: usize,
    active: Vec<MBlock>,
    window: VecDeque<MBlock>,
}

impl Spec {
    fn connect(&mut self, b: MBlock) {
        self.active.push(b.clone());
        self.window.push_back(b);
        if self.window.len() > self.n {
            self.window.pop_front();
        }
    }
    fn disconnect(&mut self) -> Option<MBlock> {
        let b = self.active.pop()?;
        if self.window.back().map(|w| w.hash) == Some(b.hash) {
            self.window.pop_back();
        }
        Some(b)
    }
}

fn fake_header(prev: BlockHash, salt: u64) -> Header {
    let mut mr = [0u8; 32];
    mr[..8].copy_from_slice(&salt.to_le_bytes());
    Header {
        version: Version::from_consensus(0),
        prev_blockhash: prev,
        merkle_root: bitcoin::TxMerkleNode::from_byte_array(mr),
        time: salt as u32,
        bits: bitcoin::CompactTarget::from_consensus(0x207fffff),
        nonce: salt as u32,
    }
}

struct Sut {
    by_txid: TxIndex<Txid, BlockHash>,
    by_loc: TxIndex<Locator, Transaction>,
}

impl Sut {
    fn new(blocks: &[ValidatedBlock], height: u32) -> Self {
        Sut { by_txid: TxIndex::new(blocks, height), by_loc: TxIndex::new(blocks, height) }
    }
    fn connect(&mut self, b: &MBlock) {
        let m1: HashMap<Txid, BlockHash> = b.txs.iter().map(|t| (t.compute_txid(), b.hash)).collect();
        let m2: HashMap<Locator, Transaction> = b.txs.iter().map(|t| (Locator::new(t.compute_txid()), t.clone())).collect();
        self.by_txid.update(b.header, &m1);
        self.by_loc.update(b.header, &m2);
    }
    fn disconnect(&mut self, b: &MBlock) {
        self.by_txid.remove_disconnected_block(&b.hash);
        self.by_loc.remove_disconnected_block(&b.hash);
    }
}

/// Compares every look-up with the specification. `universe` = every transaction ever created.
fn compare(sut: &Sut, spec: &Spec, universe: &[Transaction], all_blocks: &[MBlock]) -> Result<u64, (String, String)> {
    let mut lookups = 0;
    let mut expect: HashMap<Txid, &MBlock> = HashMap::new();
    for b in &spec.window {
        for t in &b.txs {
            expect.insert(t.compute_txid(), b);
        }
    }
    for t in universe {
        let id = t.compute_txid();
        lookups += 2;
        let got = sut.by_txid.get(&id).copied();
        let want = expect.get(&id).map(|b| b.hash);
        if got != want {
            let kind = if want.is_none() { "stale-entry" } else if got.is_none() { "missing-entry" } else { "wrong-block" };
            return Err((format!("C19:get:{kind}"), format!("TxIndex<Txid,BlockHash>::get({id}) = {got:?}, specification says {want:?}")));
        }
        let loc = Locator::new(id);
        let got2 = sut.by_loc.get(&loc).map(|t| t.compute_txid());
        let want2 = expect.get(&id).map(|_| id);
        if got2 != want2 {
            let kind = if want2.is_none() { "stale-entry" } else if got2.is_none() { "missing-entry" } else { "wrong-tx" };
            return Err((format!("C19:get:{kind}"), format!("TxIndex<Locator,Transaction>::get({loc}) = {got2:?}, specification says {want2:?}")));
        }
    }
    let in_window: HashMap<BlockHash, u32> = spec.window.iter().map(|b| (b.hash, b.height)).collect();
    for b in all_blocks {
        lookups += 2;
        let want = in_window.get(&b.hash).map(|h| *h as usize);
        for (name, got) in [("Txid", sut.by_txid.get_height(&b.hash)), ("Locator", sut.by_loc.get_height(&b.hash))] {
            if got != want {
                let kind = match (got, want) {
                    (Some(_), None) => "stale-block",
                    (None, Some(_)) => "missing-block",
                    _ => "wrong-height",
                };
                return Err((format!("C19:get_height:{kind}"), format!("TxIndex<{name},_>::get_height(block at true height {}) = {got:?}, specification says {want:?}", b.height)));
            }
        }
    }
    Ok(lookups)
}

/// Bootstraps a chain of `base + n` real (validated) blocks and both indexes over the last n.
fn bootstrap(rng: &mut Rng, n: usize, base: usize, txs_per_block: usize) -> (Spec, Sut, Vec<Transaction>, Vec<MBlock>) {
    let mut cs = ChainState::new();
    let mut universe = Vec::new();
    let mut all = Vec::new();
    let mut spec = Spec { n, active: Vec::new(), window: VecDeque::new() };
    for _ in 0..(base + n) {
        let txs: Vec<Transaction> = (0..txs_per_block).map(|_| gen::small_tx(rng)).collect();
        let h = cs.mine(txs);
        let sb = cs.blocks[&h].clone();
        // the filler transaction is part of the block as well
        let mb = MBlock { hash: h, header: sb.block.header, height: sb.height, txs: sb.block.txdata.clone() };
        universe.extend(mb.txs.iter().cloned());
        all.push(mb.clone());
        spec.connect(mb);
    }
    // last n blocks, most recent first (as main.rs builds them)
    let mut last_n: Vec<ValidatedBlock> = Vec::new();
    for i in 0..n {
        let h = cs.active[cs.active.len() - 1 - i];
        last_n.push(BlockData::FullBlock(cs.blocks[&h].block.clone()).validate(h).unwrap());
    }
    let sut = Sut::new(&last_n, cs.height());
    (spec, sut, universe, all)
}

#[derive(Clone, Copy, Debug, PartialEq, Eq)]
enum Op {
    ConnectEmpty,
    ConnectFresh,
    /// connect a block that re-confirms the transactions of the i-th most recently disconnected block
    ConnectReappear,
    ConnectTwoFresh,
    Disconnect,
}

const OPS: [Op; 5] = [Op::ConnectEmpty, Op::ConnectFresh, Op::ConnectReappear, Op::ConnectTwoFresh, Op::Disconnect];

fn run_sequence(seed: u64, n: usize, ops: &[Op]) -> Result<(u64, bool), (String, String, usize)> {
    let mut rng = Rng::stream(seed, 0xC19, n as u64);
    let (mut spec, mut sut, mut universe, mut all) = bootstrap(&mut rng, n, 1, 1);
    let mut lookups = compare(&sut, &spec, &universe, &all).map_err(|(s, d)| (s, d, 0))?;
    // transactions of disconnected blocks that are not on the active chain right now
    let mut orphaned: Vec<Vec<Transaction>> = Vec::new();
    let mut salt = 1u64;
    let mut nontrivial = false;
    for (i, op) in ops.iter().enumerate() {
        match op {
            Op::Disconnect => {
                if spec.active.len() <= 1 {
                    continue;
                }
                let b = spec.disconnect().unwrap();
                sut.disconnect(&b);
                let user: Vec<Transaction> = b.txs.clone();
                if !user.is_empty() {
                    orphaned.push(user);
                }
                nontrivial = true;
            }
            _ => {
                let txs: Vec<Transaction> = match op {
                    Op::ConnectEmpty => vec![],
                    Op::ConnectFresh => vec![gen::small_tx(&mut rng)],
                    Op::ConnectTwoFresh => vec![gen::small_tx(&mut rng), gen::small_tx(&mut rng)],
                    Op::ConnectReappear => match orphaned.pop() {
                        Some(t) => t,
                        None => continue,
                    },
                    Op::Disconnect => unreachable!(),
                };
                salt += 1;
                let prev = spec.active.last().unwrap();
                let header = fake_header(prev.hash, seed.wrapping_mul(31).wrapping_add(salt));
                let mb = MBlock { hash: header.block_hash(), header, height: prev.height + 1, txs: txs.clone() };
                for t in &txs {
                    if !universe.iter().any(|u| u.compute_txid() == t.compute_txid()) {
                        universe.push(t.clone());
                    }
                }
                all.push(mb.clone());
                sut.connect(&mb);
                spec.connect(mb);
            }
        }
        lookups += compare(&sut, &spec, &universe, &all).map_err(|(s, d)| (s, d, i + 1))?;
    }
    Ok((lookups, nontrivial))
}

fn ops_from_index(mut idx: u64, len: usize) -> Vec<Op> {
    let mut v = Vec::with_capacity(len);
    for _ in 0..len {
        v.push(OPS[(idx % OPS.len() as u64) as usize]);
        idx /= OPS.len() as u64;
    }
    v
}

pub fn run(seed: u64, shard: u64, nshards: u64, max_n: usize, max_len: usize, random_ops: u64, rep: &mut Report) {
    let r = rep.p("C19");
    // ---- exhaustive part: every op sequence of every length ≤ max_len, N = 1..=max_n
    let mut exhaustive_total = 0u64;
    for n in 1..=max_n {
        for len in 1..=max_len {
            let total = (OPS.len() as u64).pow(len as u32);
            for idx in 0..total {
                if idx % nshards != shard {
                    continue;
                }
                let ops = ops_from_index(idx, len);
                r.eval();
                exhaustive_total += 1;
                match run_sequence(seed, n, &ops) {
                    Ok((lookups, nontrivial)) => {
                        r.count("lookups_compared", lookups);
                        if nontrivial {
                            r.nontrivial(fnv(format!("{n}:{ops:?}").as_bytes()));
                        }
                        if idx == total / 2 {
                            r.sample(|| json!({"kind":"exhaustive","N":n,"ops":format!("{ops:?}")}));
                        }
                    }
                    Err((sig, detail, at)) => {
                        r.violation(sig, format!("N={n} ops={ops:?} after op #{at}: {detail}"), json!({"engine":"c19","seed":seed,"N":n,"ops":format!("{ops:?}"),"at":at}));
                    }
                }
            }
        }
    }
    r.count("exhaustive_sequences", exhaustive_total);
    // ---- random part: production sizes
    for (k, n) in [6usize, 100].iter().enumerate() {
        if (k as u64) % nshards.max(1) != shard % 2 && nshards > 1 {
            // spread the two production sizes over shards 0/1 mod 2
        }
        let mut rng = Rng::stream(seed, 0xC19F + shard, *n as u64);
        let (mut spec, mut sut, mut universe, mut all) = bootstrap(&mut rng, *n, 3, 2);
        let mut orphaned: Vec<Vec<Transaction>> = Vec::new();
        let mut done = 0u64;
        let mut salt = 0u64;
        let mut trace: Vec<String> = Vec::new();
        r.eval();
        let mut failed = false;
        'outer: while done < random_ops {
            // a burst: disconnect d blocks then connect c blocks
            let d = match rng.below(10) {
                0..=4 => 0,
                5..=7 => 1 + rng.usize(3),
                8 => 1 + rng.usize(*n),
                _ => *n + rng.usize(3),
            };
            let c = if d == 0 { 1 + rng.usize(3) } else { d + 1 + rng.usize(2) };
            for _ in 0..d {
                if spec.active.len() <= 1 {
                    break;
                }
                let b = spec.disconnect().unwrap();
                sut.disconnect(&b);
                orphaned.push(b.txs.clone());
                trace.push("D".into());
                done += 1;
            }
            for _ in 0..c {
                let mut txs = Vec::new();
                if rng.chance(1, 3) {
                    if let Some(t) = orphaned.pop() {
                        txs.extend(t);
                    }
                }
                for _ in 0..rng.usize(3) {
                    txs.push(gen::small_tx(&mut rng));
                }
                salt += 1;
                let prev = spec.active.last().unwrap();
                let header = fake_header(prev.hash, seed.wrapping_mul(77).wrapping_add(salt + (*n as u64) * 1_000_000));
                let mb = MBlock { hash: header.block_hash(), header, height: prev.height + 1, txs: txs.clone() };
                for t in &txs {
                    if !universe.iter().any(|u| u.compute_txid() == t.compute_txid()) {
                        universe.push(t.clone());
                    }
                }
                all.push(mb.clone());
                sut.connect(&mb);
                spec.connect(mb);
                trace.push(format!("C{}", txs.len()));
                done += 1;
            }
            // keep the comparison universe bounded: recent blocks and transactions only
            if all.len() > 4 * *n + 40 {
                let cut = all.len() - (3 * *n + 30);
                all.drain(..cut);
            }
            if universe.len() > 12 * *n + 100 {
                let cut = universe.len() - (10 * *n + 80);
                universe.drain(..cut);
            }
            if orphaned.len() > 50 {
                orphaned.drain(..25);
            }
            match compare(&sut, &spec, &universe, &all) {
                Ok(l) => r.count("lookups_compared", l),
                Err((sig, detail)) => {
                    let tail: Vec<String> = trace.iter().rev().take(40).rev().cloned().collect();
                    r.violation(sig, format!("N={n} random walk, after {done} ops (last ops {tail:?}): {detail}"), json!({"engine":"c19","seed":seed,"shard":shard,"N":n,"random":true,"ops_done":done}));
                    failed = true;
                    break 'outer;
                }
            }
        }
        r.count("random_ops", done);
        if !failed {
            r.nontrivial(fnv(format!("rand:{n}:{seed}:{shard}").as_bytes()));
            r.sample(|| json!({"kind":"random","N":n,"ops":done,"tail":trace.iter().rev().take(30).rev().cloned().collect::<Vec<_>>()}));
        }
    }
}
