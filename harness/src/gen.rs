//! Seeded generators for keys, transactions and appointment blobs.

use crate::rng::Rng;
use bitcoin::absolute::LockTime;
use bitcoin::hashes::Hash;
use bitcoin::secp256k1::{PublicKey, Secp256k1, SecretKey};
use bitcoin::{Amount, OutPoint, ScriptBuf, Sequence, Transaction, TxIn, TxOut, Txid, Witness};
use chacha20poly1305::aead::{Aead, NewAead};
use chacha20poly1305::{ChaCha20Poly1305, Key, Nonce};

pub fn keypair(rng: &mut Rng) -> (SecretKey, PublicKey) {
    loop {
        if let Ok(sk) = SecretKey::from_slice(&rng.bytes(32)) {
            let pk = PublicKey::from_secret_key(&Secp256k1::new(), &sk);
            return (sk, pk);
        }
    }
}

pub fn txid(rng: &mut Rng) -> Txid {
    Txid::from_slice(&rng.bytes(32)).unwrap()
}

pub fn script(rng: &mut Rng, len: usize) -> ScriptBuf {
    ScriptBuf::from_bytes(rng.bytes(len))
}

/// A random well-formed transaction: `n_in` inputs, `n_out` outputs, scripts and witness items of
/// the given maximum sizes.
pub fn random_tx(rng: &mut Rng, n_in: usize, n_out: usize, max_script: usize, max_wit: usize) -> Transaction {
    let mut input = Vec::new();
    for _ in 0..n_in.max(1) {
        let mut witness = Witness::new();
        if max_wit > 0 {
            let items = rng.usize(4);
            for _ in 0..items {
                let l = rng.usize(max_wit + 1);
                witness.push(rng.bytes(l));
            }
        }
        let sl = rng.usize(max_script + 1);
        input.push(TxIn {
            previous_output: OutPoint::new(txid(rng), rng.next_u32() % 1000),
            script_sig: script(rng, sl),
            sequence: Sequence(rng.next_u32()),
            witness,
        });
    }
    let mut output = Vec::new();
    for _ in 0..n_out.max(1) {
        let sl = rng.usize(max_script + 1);
        output.push(TxOut {
            value: Amount::from_sat(rng.below(21_000_000 * 100_000_000)),
            script_pubkey: script(rng, sl),
        });
    }
    Transaction {
        version: bitcoin::transaction::Version(if rng.chance(1, 2) { 2 } else { 1 }),
        lock_time: LockTime::from_consensus(rng.next_u32()),
        input,
        output,
    }
}

/// A small unique transaction with no witness data (block filler, disputes).
pub fn small_tx(rng: &mut Rng) -> Transaction {
    Transaction {
        version: bitcoin::transaction::Version(2),
        lock_time: LockTime::ZERO,
        input: vec![TxIn {
            previous_output: OutPoint::new(txid(rng), rng.next_u32() % 200),
            script_sig: ScriptBuf::new(),
            sequence: Sequence(0),
            witness: Witness::new(),
        }],
        output: vec![TxOut {
            value: Amount::from_sat(rng.below(21_000_000_000)),
            script_pubkey: ScriptBuf::from_bytes(vec![0x51]),
        }],
    }
}

/// A transaction spending output 0 of `parent`, with an OP_RETURN-like padding output so that its
/// serialisation has `pad` extra bytes (no witness data).
pub fn spend_of(rng: &mut Rng, parent: &Txid, pad: usize) -> Transaction {
    let mut pad_script = vec![0x6a];
    pad_script.extend(rng.bytes(pad));
    Transaction {
        version: bitcoin::transaction::Version(2),
        lock_time: LockTime::ZERO,
        input: vec![TxIn {
            previous_output: OutPoint::new(*parent, 0),
            script_sig: ScriptBuf::new(),
            sequence: Sequence(rng.next_u32()),
            witness: Witness::new(),
        }],
        output: vec![
            TxOut {
                value: Amount::from_sat(rng.below(21_000_000_000)),
                script_pubkey: ScriptBuf::from_bytes(vec![0x51]),
            },
            TxOut {
                value: Amount::from_sat(0),
                script_pubkey: ScriptBuf::from_bytes(pad_script),
            },
        ],
    }
}

/// chacha20poly1305 with key sha256(secret) and a zero nonce, over arbitrary bytes — an independent
/// re-statement of the BOLT13 blob encryption, used to build blobs that authenticate under a
/// dispute id but are not (only) a transaction.
pub fn encrypt_bytes(plain: &[u8], secret: &Txid) -> Vec<u8> {
    let k = bitcoin::hashes::sha256::Hash::hash(secret.as_byte_array());
    let key = Key::from_slice(k.as_byte_array());
    ChaCha20Poly1305::new(key)
        .encrypt(&Nonce::default(), plain)
        .unwrap()
}

pub fn decrypt_bytes(blob: &[u8], secret: &Txid) -> Option<Vec<u8>> {
    let k = bitcoin::hashes::sha256::Hash::hash(secret.as_byte_array());
    let key = Key::from_slice(k.as_byte_array());
    ChaCha20Poly1305::new(key).decrypt(&Nonce::default(), blob).ok()
}
