//! Soak of the real `teosd` binary: several client threads hammer a few users and channels with
//! register / add_appointment (new versions, re-sends, replacements of other sizes) / get_appointment /
//! get_subscription_info while blocks (with disputes of held appointments) are mined and delivered.
//! Nothing is scheduled. After every round the tower is quiescent and structural invariants are
//! checked against what the clients were told and what the chain contains:
//!
//!  * every request was answered (none timed out), teosd is alive and printed no panic      (C11)
//!  * memory (operator API) == disk (sqlite): users, balances, expiries, appointments, trackers     (C10)
//!  * conservation per user: slots granted by the registrations the user saw succeed
//!    == available + slots occupied by the rows it holds (all blobs are valid, the node accepts
//!    everything, nothing completes: no slot may be lost or conjured up, whatever raced)    (C10 / C07)
//!  * a key (user, channel) with at least one acknowledged submission holds exactly one row, and that
//!    row's blob is one of the acknowledged versions (which one is the race's business)          (C10)
//!  * every delivered dispute: each held appointment on that channel has a tracker whose penalty the
//!    node was given                                                                              (C10 / C01)
//!  * every receipt handed out verifies under the tower's id                                      (C08)

use crate::chain::{lock, SimChain};
use crate::events::Ev;
use crate::remote::{panic_in, run_remote_session, FakeBitcoind, StopMode, TeosdOpts};
use crate::report::Report;
use crate::rng::{fnv, Rng};
use crate::snap::Snap;
use crate::tower::{self, Api, TowerCfg};
use crate::world::{BlobKind, SigKind, Signer, TxRef, World};
use serde_json::json;
use std::collections::{BTreeMap, BTreeSet};
use std::path::PathBuf;
use std::sync::atomic::{AtomicU64, Ordering};
use std::sync::{Arc, Mutex};
use std::time::{Duration, Instant};
use teos_common::receipts::{AppointmentReceipt, RegistrationReceipt};
use teos_common::UserId;
use tonic::Code;

#[derive(Clone, Debug)]
enum Req {
    Register { user: usize },
    Add { user: usize, ver: usize },
    GetAppt { user: usize, chan: usize },
    GetSub { user: usize },
}

#[derive(Clone, Debug)]
struct Done {
    req: Req,
    t0: Instant,
    t1: Instant,
    ok: bool,
    code: Option<Code>,
    /// for registrations: (slots, start, expiry); for adds: (start_block, slots, expiry)
    nums: (u32, u32, u32),
    sig: String,
    user_sig: String,
}

fn slots_of(len: usize) -> u32 {
    std::cmp::max(1, ((len + 2047) / 2048) as u32)
}

pub fn run(seed: u64, shard: u64, nshards: u64, cases: u64, rounds: usize, threads: usize, only: Option<u64>, rep: &mut Report) {
    let dir = PathBuf::from(format!("/dev/shm/tv-e3s-{}", std::process::id()));
    std::fs::create_dir_all(&dir).unwrap();
    let ids: Vec<u64> = match only {
        Some(c) => vec![c],
        None => (0..cases).map(|i| 10_000_000 + shard + i * nshards).collect(),
    };
    for id in ids {
        let mut rng = Rng::stream(seed, id, 0xE35);
        let n_users = 2 + rng.usize(2);
        let n_chans = 4 + rng.usize(3);
        let start_h = 102 + rng.below(5) as u32;
        let mut world = World::new(&mut rng, n_users, n_chans, start_h);
        let slots = 1000u32;
        let datadir = dir.join(format!("soak-{id}"));
        let _ = std::fs::remove_dir_all(&datadir);
        std::fs::create_dir_all(&datadir).unwrap();
        let cfg = TowerCfg { slots, duration: 500, grace: 6, db_path: datadir.join("regtest").join("teos_db.sql3") };
        // versions: several per channel, sizes around the slot boundary, all valid (so that nothing is ever forfeited)
        let mut vers_of_chan: Vec<Vec<usize>> = vec![Vec::new(); n_chans];
        for c in 0..n_chans {
            for _ in 0..3 {
                let target = *rng.pick(&[120usize, 400, 900, 2040, 2049, 2100, 4097]);
                let v = world.new_version(&mut rng, c, BlobKind::Valid, target);
                vers_of_chan[c].push(v);
            }
        }
        // the node takes every penalty (also a second spend of the same dispute output): nothing is ever forfeited
        for v in &world.versions {
            if let Some(p) = &v.penalty {
                world.set_script(p.compute_txid(), Some((0, false)));
            }
        }
        let chain: Arc<SimChain> = Arc::new(world.simchain());
        let btc = FakeBitcoind::start(chain, world.node.clone());
        let replay = json!({"engine":"e3s","seed":seed,"case":id});
        let mut viols: Vec<(&'static str, String, String)> = Vec::new();
        let mut inconclusive: Option<String> = None;
        let overlaps = AtomicU64::new(0);
        let mut n_requests = 0u64;
        let mut n_overlap_poll = 0u64;
        let mut rounds_done = 0u64;
        let mut disputes_delivered = 0u64;
        let res = run_remote_session(&btc, &datadir, &cfg, &TeosdOpts::default(), StopMode::Kill, |s| {
            let api = s.api.clone();
            if let Api::Remote(r) = &api {
                r.call_timeout_ms.store(30_000, Ordering::SeqCst);
            }
            let tower_id = s.tower_id;
            // what the clients have been told so far
            let mut ok_registers: BTreeMap<usize, u32> = BTreeMap::new();
            let mut acked_versions: BTreeMap<(usize, usize), BTreeSet<usize>> = BTreeMap::new();
            let mut delivered_disputes: BTreeSet<usize> = BTreeSet::new();
            for round in 0..rounds {
                // ---- plan
                let plans: Vec<Vec<Req>> = (0..threads)
                    .map(|_| {
                        (0..(8 + rng.usize(10)))
                            .map(|_| {
                                let user = rng.usize(n_users);
                                match rng.below(10) {
                                    0 | 1 => Req::Register { user },
                                    2..=6 => {
                                        // never for a channel whose dispute is already delivered (that is C01's business, sequentially)
                                        let open: Vec<usize> = (0..n_chans).filter(|c| !delivered_disputes.contains(c)).collect();
                                        let chan = if open.is_empty() { rng.usize(n_chans) } else { *rng.pick(&open) };
                                        Req::Add { user, ver: *rng.pick(&vers_of_chan[chan]) }
                                    }
                                    7 | 8 => Req::GetAppt { user, chan: rng.usize(n_chans) },
                                    _ => Req::GetSub { user },
                                }
                            })
                            .collect()
                    })
                    .collect();
                // chain event of the round: a dispute of a channel with acknowledged appointments (from round 2 on), or an empty block
                let held_chans: Vec<usize> = acked_versions.keys().map(|k| k.1).filter(|c| !delivered_disputes.contains(c)).collect::<BTreeSet<_>>().into_iter().collect();
                let dispute = if round >= 1 && !held_chans.is_empty() && rng.chance(2, 3) { Some(*rng.pick(&held_chans)) } else { None };
                let poll_delay = rng.below(6000);
                // ---- run
                let results: Mutex<Vec<Done>> = Mutex::new(Vec::new());
                // set by the first request that gets no answer: the others stop queueing up behind a wedged tower
                let stuck = std::sync::atomic::AtomicBool::new(false);
                let poll_window: Mutex<Option<(Instant, Instant)>> = Mutex::new(None);
                std::thread::scope(|sc| {
                    for plan in &plans {
                        let api = api.clone();
                        let world = &world;
                        let results = &results;
                        let stuck = &stuck;
                        let mut trng = rng.fork(plan.len() as u64 + results.lock().unwrap().len() as u64);
                        sc.spawn(move || {
                            for req in plan {
                                if stuck.load(Ordering::SeqCst) {
                                    break;
                                }
                                std::thread::sleep(Duration::from_micros(trng.below(1500)));
                                let t0 = Instant::now();
                                let mut d = Done { req: req.clone(), t0, t1: t0, ok: false, code: None, nums: (0, 0, 0), sig: String::new(), user_sig: String::new() };
                                match req {
                                    Req::Register { user } => match tower::register(&api, world.users[*user].1.serialize().to_vec()) {
                                        Ok(r) => {
                                            d.ok = true;
                                            d.nums = (r.available_slots, r.subscription_start, r.subscription_expiry);
                                            d.sig = r.subscription_signature;
                                        }
                                        Err(e) => d.code = Some(e.code()),
                                    },
                                    Req::Add { user, ver } => {
                                        let v = &world.versions[*ver];
                                        let mut r0 = Rng::new(1);
                                        let usig = world.sign(&mut r0, Signer::User(*user), &v.msg(&world.chans), SigKind::Good);
                                        d.user_sig = usig.clone();
                                        match tower::add_appointment(&api, world.chans[v.chan].locator.clone(), v.blob.clone(), v.tsd, usig) {
                                            Ok(r) => {
                                                d.ok = true;
                                                d.nums = (r.start_block, r.available_slots, r.subscription_expiry);
                                                d.sig = r.signature;
                                            }
                                            Err(e) => d.code = Some(e.code()),
                                        }
                                    }
                                    Req::GetAppt { user, chan } => {
                                        let msg = format!("get appointment {}", hex::encode(&world.chans[*chan].locator));
                                        let mut r0 = Rng::new(1);
                                        let sig = world.sign(&mut r0, Signer::User(*user), msg.as_bytes(), SigKind::Good);
                                        match tower::get_appointment(&api, world.chans[*chan].locator.clone(), sig) {
                                            Ok(_) => d.ok = true,
                                            Err(e) => d.code = Some(e.code()),
                                        }
                                    }
                                    Req::GetSub { user } => {
                                        let mut r0 = Rng::new(1);
                                        let sig = world.sign(&mut r0, Signer::User(*user), b"get subscription info", SigKind::Good);
                                        match tower::get_subscription_info(&api, sig) {
                                            Ok(_) => d.ok = true,
                                            Err(e) => d.code = Some(e.code()),
                                        }
                                    }
                                }
                                d.t1 = Instant::now();
                                if d.code == Some(Code::DeadlineExceeded) {
                                    stuck.store(true, Ordering::SeqCst);
                                }
                                results.lock().unwrap().push(d);
                            }
                        });
                    }
                    // the chain thread
                    std::thread::sleep(Duration::from_micros(poll_delay));
                    let blocks: Vec<Vec<TxRef>> = match dispute {
                        Some(c) => vec![vec![TxRef::Dispute(c)]],
                        None => vec![vec![]],
                    };
                    world.mine(&blocks, id);
                    let p0 = Instant::now();
                    let pr = btc.grant_poll(Duration::from_secs(60), &mut || true);
                    *poll_window.lock().unwrap() = Some((p0, Instant::now()));
                    if let Err(e) = pr {
                        viols.push(("C11", format!("C11:no-progress:real-teosd:soak-poll"), format!("soak {id} round {round}: the poll delivering a block while {threads} clients were busy did not complete: {e}")));
                    }
                });
                if let Some(c) = dispute {
                    delivered_disputes.insert(c);
                    disputes_delivered += 1;
                }
                let results = results.into_inner().unwrap();
                n_requests += results.len() as u64;
                // interleaving evidence: overlapping request pairs, requests overlapping the poll
                for (i, a) in results.iter().enumerate() {
                    for b in results.iter().skip(i + 1) {
                        if a.t0 < b.t1 && b.t0 < a.t1 {
                            overlaps.fetch_add(1, Ordering::Relaxed);
                        }
                    }
                }
                if let Some((p0, p1)) = *poll_window.lock().unwrap() {
                    n_overlap_poll += results.iter().filter(|d| d.t0 < p1 && p0 < d.t1).count() as u64;
                }
                // ---- what the clients were told
                for d in &results {
                    if let Some(Code::DeadlineExceeded) = d.code {
                        viols.push(("C11", "C11:no-progress:real-teosd:soak-request".into(), format!("soak {id} round {round}: {:?} got no answer within 30 s", d.req)));
                    }
                    match (&d.req, d.ok) {
                        (Req::Register { user }, true) => {
                            *ok_registers.entry(*user).or_insert(0) += 1;
                            let uid = UserId(world.users[*user].1);
                            let rc = RegistrationReceipt::with_signature(uid, d.nums.0, d.nums.1, d.nums.2, d.sig.clone());
                            if !rc.verify(&tower_id) {
                                viols.push(("C08", "C08:registration-receipt-does-not-verify".into(), format!("soak {id} round {round}: the receipt of {:?} does not verify under the tower id", d.req)));
                            }
                        }
                        (Req::Add { user, ver }, true) => {
                            acked_versions.entry((*user, world.versions[*ver].chan)).or_default().insert(*ver);
                            let rc = AppointmentReceipt::with_signature(d.user_sig.clone(), d.nums.0, d.sig.clone());
                            if !rc.verify(&tower_id) {
                                viols.push(("C08", "C08:appointment-receipt-does-not-verify".into(), format!("soak {id} round {round}: the receipt of {:?} does not verify under the tower id", d.req)));
                            }
                        }
                        _ => {}
                    }
                }
                if !(s.alive)() {
                    viols.push(("C11", "C11:teosd-exited".into(), format!("soak {id} round {round}: teosd exited")));
                    break;
                }
                if viols.iter().any(|v| v.1.starts_with("C11:no-progress")) {
                    // a tower that has stopped answering has no quiescent point to inspect (its private API would not answer either)
                    break;
                }
                // ---- quiescent: invariants
                let snap = match Snap::read(&cfg.db_path) {
                    Ok(sn) => sn,
                    Err(e) => {
                        viols.push(("C10", "C10:soak:db-unreadable".into(), e));
                        break;
                    }
                };
                let ctx = format!("soak {id} after round {round} ({} requests by {threads} threads, block {})", results.len(), if dispute.is_some() { "with a dispute" } else { "empty" });
                if snap.fk_violations > 0 {
                    viols.push(("C10", "C10:soak:dangling-record".into(), format!("{ctx}: foreign_key_check reports {} rows", snap.fk_violations)));
                }
                // memory == disk
                let users: BTreeSet<Vec<u8>> = tower::get_users(&api).into_iter().collect();
                let disk_users: BTreeSet<Vec<u8>> = snap.users.keys().cloned().collect();
                if users != disk_users {
                    viols.push(("C10", "C10:soak:users-memory-vs-disk".into(), format!("{ctx}: get_users lists {} users, the users table {}", users.len(), disk_users.len())));
                }
                for (uidb, row) in &snap.users {
                    if let Some(u) = tower::get_user(&api, uidb.clone()) {
                        if u.available_slots != row.available_slots || u.subscription_expiry != row.expiry {
                            viols.push(("C10", "C10:soak:balance-memory-vs-disk".into(), format!("{ctx}: get_user says (slots {}, expiry {}), the row says (slots {}, expiry {})", u.available_slots, u.subscription_expiry, row.available_slots, row.expiry)));
                        }
                        let mem: BTreeSet<Vec<u8>> = u.appointments.into_iter().collect();
                        let disk: BTreeSet<Vec<u8>> = snap.appts.iter().filter(|(_, a)| a.user_id == *uidb).map(|(k, _)| k.clone()).collect();
                        if mem != disk {
                            viols.push(("C10", "C10:soak:user-appointments-memory-vs-disk".into(), format!("{ctx}: get_user lists {} appointments, the database holds {}", mem.len(), disk.len())));
                        }
                    }
                }
                // conservation + one row per acknowledged key
                for u in 0..n_users {
                    let uidb = world.users[u].1.serialize().to_vec();
                    let granted = ok_registers.get(&u).copied().unwrap_or(0) as u64 * slots as u64;
                    match snap.users.get(&uidb) {
                        None => {
                            if granted > 0 {
                                viols.push(("C10", "C10:soak:registered-user-missing".into(), format!("{ctx}: user {u} saw {} registrations succeed but has no row", ok_registers[&u])));
                            }
                        }
                        Some(row) => {
                            let held: u64 = snap.appts.values().filter(|a| a.user_id == uidb).map(|a| slots_of(a.blob.len()) as u64).sum();
                            if row.available_slots as u64 + held != granted {
                                viols.push(("C10", "C10:soak:slots-not-conserved".into(), format!("{ctx}: user {u}: {} registrations succeeded ({} slots granted) but available {} + occupied {} = {}", ok_registers.get(&u).copied().unwrap_or(0), granted, row.available_slots, held, row.available_slots as u64 + held)));
                            }
                        }
                    }
                }
                for ((u, c), vs) in &acked_versions {
                    let uuid = crate::model::uuid_of(&world, (*u, *c));
                    match snap.appts.get(&uuid) {
                        None => viols.push(("C10", "C10:soak:acknowledged-appointment-missing".into(), format!("{ctx}: (user {u}, channel {c}) had {} submissions acknowledged but no appointment is stored", vs.len()))),
                        Some(a) => {
                            if !vs.iter().any(|v| world.versions[*v].blob == a.blob) {
                                viols.push(("C10", "C10:soak:stored-version-never-acknowledged".into(), format!("{ctx}: the blob stored for (user {u}, channel {c}) is none of the {} acknowledged versions", vs.len())));
                            }
                        }
                    }
                }
                // delivered disputes are answered for every holder
                let sent: BTreeSet<bitcoin::Txid> = world.log.since(0).iter().filter_map(|e| match e {
                    Ev::Send { txid, .. } => Some(*txid),
                    _ => None,
                }).collect();
                for c in &delivered_disputes {
                    for ((u, cc), _) in acked_versions.iter().filter(|(k, _)| k.1 == *c) {
                        let uuid = crate::model::uuid_of(&world, (*u, *cc));
                        if let Some(a) = snap.appts.get(&uuid) {
                            match snap.trackers.get(&uuid) {
                                None => viols.push(("C10", "C10:soak:breach-not-answered".into(), format!("{ctx}: the dispute of channel {c} was delivered, (user {u}) holds an appointment on it, but there is no tracker"))),
                                Some(t) => {
                                    let ptx: Result<bitcoin::Transaction, _> = bitcoin::consensus::deserialize(&t.penalty_tx);
                                    if let Ok(ptx) = ptx {
                                        if !sent.contains(&ptx.compute_txid()) {
                                            viols.push(("C10", "C10:soak:responded-without-broadcast".into(), format!("{ctx}: tracker of (user {u}, channel {c}) exists but its penalty was never handed to the node")));
                                        }
                                    }
                                    let _ = a;
                                }
                            }
                        }
                    }
                }
                rounds_done += 1;
                if !viols.is_empty() {
                    break;
                }
            }
        });
        match res {
            Ok(out) => {
                if out.output.contains("Address already in use") {
                    inconclusive = Some("a listening port of teosd was taken by another process".into());
                } else if let Some((loc, msg)) = panic_in(&out.output) {
                    viols.push(("C11", format!("C11:panic:teosd:msg={}", crate::panics::message_class(&msg)), format!("soak {id}: teosd panicked at {loc}: {msg}")));
                }
            }
            Err(e) => inconclusive = Some(format!("teosd did not start: {e:?}")),
        }
        btc.shutdown();
        let _ = std::fs::remove_dir_all(&datadir);
        for p in ["C10", "C11"] {
            let r = rep.p(p);
            r.eval();
            if let Some(w) = &inconclusive {
                r.inconclusive += 1;
                r.note(format!("e3s soak {id}: {w}"));
                continue;
            }
            r.count("soak_cases", 1);
            r.count("soak_rounds", rounds_done);
            r.count("soak_requests", n_requests);
            r.count("soak_overlapping_request_pairs", overlaps.load(Ordering::Relaxed));
            r.count("soak_requests_overlapping_a_block_event", n_overlap_poll);
            r.count("soak_disputes_delivered_under_load", disputes_delivered);
            if overlaps.load(Ordering::Relaxed) > 0 {
                r.nontrivial(fnv(format!("soak:{id}:{}", overlaps.load(Ordering::Relaxed)).as_bytes()));
            }
            r.sample(|| json!({"engine":"e3s","case": id, "rounds": rounds_done, "requests": n_requests, "overlapping_pairs": overlaps.load(Ordering::Relaxed)}));
        }
        let wedged = viols.iter().any(|v| v.1.starts_with("C11:no-progress"));
        if inconclusive.is_none() {
            for (p, sig, detail) in viols {
                rep.p(p).violation(sig, detail, replay.clone());
            }
        }
        if wedged {
            // one witness of a tower that stops answering is enough for this shard (every further case would wait for its time-outs)
            break;
        }
    }
    std::fs::remove_dir_all(&dir).ok();
}
