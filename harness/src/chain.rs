//! SimChain: the block source seen by the tower (valid headers at the maximum target, valid merkle
//! roots, no witness data, monotone chainwork, forks / reorgs, scripted download failures).
//! The chain state is shared (Arc<Mutex>) with SimNode and the driver.

use bitcoin::block::{Block, Header, Version};
use bitcoin::blockdata::constants::genesis_block;
use bitcoin::merkle_tree::calculate_root;
use bitcoin::pow::Work;
use bitcoin::{BlockHash, Network, Transaction, Txid};
use lightning_block_sync::{AsyncBlockSourceResult, BlockData, BlockHeaderData, BlockSource, BlockSourceError};
use std::collections::HashMap;
use std::sync::{Arc, Mutex};

use crate::events::{Ev, EventLog};

#[derive(Clone)]
pub struct StoredBlock {
    pub block: Block,
    pub height: u32,
    pub chainwork: Work,
}

/// How a block-source call should fail.
#[derive(Clone, Copy, Debug, PartialEq, Eq)]
pub enum SrcFault {
    Transient,
    Persistent,
}

#[derive(Clone)]
pub struct ChainState {
    pub blocks: HashMap<BlockHash, StoredBlock>,
    /// active chain, index = height
    pub active: Vec<BlockHash>,
    /// number of block-source calls served so far (fault scripts are indexed by it)
    pub src_calls: u64,
    /// fail block-source calls whose index is in [from, until)
    pub src_fault: Option<(u64, u64, SrcFault)>,
    /// fail every `get_block` of these hashes
    pub undownloadable: HashMap<BlockHash, SrcFault>,
    pub salt: u32,
}

pub fn header_work(h: &Header) -> Work {
    h.work()
}

impl ChainState {
    pub fn new() -> Self {
        let g = genesis_block(Network::Regtest);
        let mut blocks = HashMap::new();
        let gh = g.block_hash();
        let w = g.header.work();
        blocks.insert(gh, StoredBlock { block: g, height: 0, chainwork: w });
        ChainState {
            blocks,
            active: vec![gh],
            src_calls: 0,
            src_fault: None,
            undownloadable: HashMap::new(),
            salt: 0,
        }
    }

    pub fn height(&self) -> u32 {
        (self.active.len() - 1) as u32
    }

    pub fn tip(&self) -> BlockHash {
        *self.active.last().unwrap()
    }

    pub fn block_at(&self, h: u32) -> &StoredBlock {
        &self.blocks[&self.active[h as usize]]
    }

    /// Builds a block on top of `prev` containing a coinbase-like filler followed by `txs`.
    fn build(&mut self, prev: BlockHash, mut txs: Vec<Transaction>) -> BlockHash {
        self.salt += 1;
        let prev_sb = self.blocks[&prev].clone();
        // filler tx makes every block unique and non-empty
        let filler = Transaction {
            version: bitcoin::transaction::Version(2),
            lock_time: bitcoin::absolute::LockTime::ZERO,
            input: vec![bitcoin::TxIn {
                previous_output: bitcoin::OutPoint::null(),
                script_sig: bitcoin::ScriptBuf::from_bytes(self.salt.to_le_bytes().to_vec()),
                sequence: bitcoin::Sequence::MAX,
                witness: bitcoin::Witness::new(),
            }],
            output: vec![bitcoin::TxOut {
                value: bitcoin::Amount::from_sat(50_0000_0000),
                script_pubkey: bitcoin::ScriptBuf::from_bytes(vec![0x51]),
            }],
        };
        let mut txdata = vec![filler];
        txdata.append(&mut txs);
        let hashes = txdata.iter().map(|tx| tx.compute_txid().to_raw_hash());
        let bits = bitcoin::Target::from_be_bytes([0xff; 32]).to_compact_lossy();
        let mut header = Header {
            version: Version::from_consensus(0),
            prev_blockhash: prev,
            merkle_root: calculate_root(hashes).unwrap().into(),
            time: prev_sb.block.header.time + 1,
            bits,
            nonce: 0,
        };
        while header.validate_pow(header.target()).is_err() {
            header.nonce += 1;
        }
        let h = header.block_hash();
        let work = header.work();
        self.blocks.insert(
            h,
            StoredBlock { block: Block { header, txdata }, height: prev_sb.height + 1, chainwork: prev_sb.chainwork + work },
        );
        h
    }

    /// Mines a block with `txs` on the active tip.
    pub fn mine(&mut self, txs: Vec<Transaction>) -> BlockHash {
        let tip = self.tip();
        let h = self.build(tip, txs);
        self.active.push(h);
        h
    }

    /// Replaces the top `depth` blocks by `new_blocks` (must be longer than `depth` so that the new
    /// branch has more work). Returns the disconnected block hashes (tip first).
    pub fn reorg(&mut self, depth: usize, new_blocks: Vec<Vec<Transaction>>) -> Vec<BlockHash> {
        assert!(new_blocks.len() > depth, "replacement branch must have more work");
        assert!(depth < self.active.len());
        let mut disconnected = Vec::new();
        for _ in 0..depth {
            disconnected.push(self.active.pop().unwrap());
        }
        for txs in new_blocks {
            self.mine(txs);
        }
        disconnected
    }

    /// Like `reorg`, but the replacement branch may have the same or less work than the one it replaces
    /// (a node that comes back from an unclean shutdown on a sibling of its old tip, or short of it).
    pub fn reorg_any(&mut self, depth: usize, new_blocks: Vec<Vec<Transaction>>) -> Vec<BlockHash> {
        assert!(depth < self.active.len());
        let mut disconnected = Vec::new();
        for _ in 0..depth {
            disconnected.push(self.active.pop().unwrap());
        }
        for txs in new_blocks {
            self.mine(txs);
        }
        disconnected
    }

    /// txid -> height for the active chain (linear scan from the tip, bounded by `max_depth`).
    pub fn confirmed_height(&self, txid: &Txid, max_depth: usize) -> Option<u32> {
        let n = self.active.len();
        for (i, bh) in self.active.iter().enumerate().rev() {
            if n - i > max_depth {
                break;
            }
            if self.blocks[bh].block.txdata.iter().any(|t| t.compute_txid() == *txid) {
                return Some(i as u32);
            }
        }
        None
    }

    /// The blocks a tower whose tip is `tip` has to connect to reach the active tip (after
    /// disconnecting down to the common ancestor), oldest first.
    pub fn connects_from(&self, tip: &BlockHash) -> Vec<BlockHash> {
        let mut cur = match self.blocks.get(tip) {
            Some(sb) => sb,
            None => return vec![],
        };
        loop {
            let h = cur.height as usize;
            if h < self.active.len() && self.active[h] == cur.block.block_hash() {
                return self.active[h + 1..].to_vec();
            }
            match self.blocks.get(&cur.block.header.prev_blockhash) {
                Some(p) => cur = p,
                None => return vec![],
            }
        }
    }

    pub fn header_data(&self, h: &BlockHash) -> Option<BlockHeaderData> {
        self.blocks.get(h).map(|sb| BlockHeaderData { header: sb.block.header, height: sb.height, chainwork: sb.chainwork })
    }
}

/// Locks ignoring poisoning (a simulated crash may unwind through a holder).
pub fn lock<T>(m: &Mutex<T>) -> std::sync::MutexGuard<'_, T> {
    m.lock().unwrap_or_else(|e| e.into_inner())
}

/// The BlockSource handed to the tower's ChainPoller.
pub struct SimChain {
    pub state: Arc<Mutex<ChainState>>,
    pub log: EventLog,
    /// if set, the tower's sqlite file is read (second, read-only connection) right before each
    /// block is handed out, i.e. when the previous block has been fully processed
    pub snap_path: Option<std::path::PathBuf>,
    /// snapshots are only taken while armed (i.e. not during the bootstrap's block fetching)
    pub armed: std::sync::atomic::AtomicBool,
    /// called (on the tower's chain thread) right before a block is handed out, i.e. between two
    /// block events: the E2 scheduler uses it as a scheduling point
    pub on_boundary: Option<Arc<dyn Fn() + Send + Sync>>,
    /// shared with SimNode: the node process is down
    pub down: Arc<std::sync::atomic::AtomicBool>,
}

impl SimChain {
    fn fault(&self, st: &mut ChainState, what: &str) -> Option<BlockSourceError> {
        let idx = st.src_calls;
        st.src_calls += 1;
        if self.down.load(std::sync::atomic::Ordering::SeqCst) {
            self.log.push(Ev::SrcFault { idx, what: format!("{what} (node down)") });
            return Some(BlockSourceError::transient("connection refused (node down)"));
        }
        if let Some((from, until, kind)) = st.src_fault {
            if idx >= from && idx < until {
                self.log.push(Ev::SrcFault { idx, what: what.to_string() });
                return Some(match kind {
                    SrcFault::Transient => BlockSourceError::transient("connection refused (scripted)"),
                    SrcFault::Persistent => BlockSourceError::persistent("scripted persistent failure"),
                });
            }
        }
        None
    }
}

impl BlockSource for SimChain {
    fn get_header<'a>(&'a self, header_hash: &'a BlockHash, _height_hint: Option<u32>) -> AsyncBlockSourceResult<'a, BlockHeaderData> {
        Box::pin(async move {
            crate::events::boundary("src.get_header");
            let mut st = lock(&self.state);
            if let Some(e) = self.fault(&mut st, "get_header") {
                return Err(e);
            }
            st.header_data(header_hash).ok_or_else(|| BlockSourceError::transient("header not found"))
        })
    }

    fn get_block<'a>(&'a self, header_hash: &'a BlockHash) -> AsyncBlockSourceResult<'a, BlockData> {
        Box::pin(async move {
            crate::events::boundary("src.get_block");
            if let (Some(f), true) = (&self.on_boundary, self.armed.load(std::sync::atomic::Ordering::SeqCst)) {
                f();
            }
            let mut st = lock(&self.state);
            if let Some(e) = self.fault(&mut st, "get_block") {
                return Err(e);
            }
            if let Some(kind) = st.undownloadable.get(header_hash) {
                self.log.push(Ev::SrcFault { idx: st.src_calls - 1, what: "get_block(undownloadable)".into() });
                return Err(match kind {
                    SrcFault::Transient => BlockSourceError::transient("block not available (scripted)"),
                    SrcFault::Persistent => BlockSourceError::persistent("block not available (scripted)"),
                });
            }
            match st.blocks.get(header_hash) {
                Some(sb) => {
                    if let (Some(p), true) = (&self.snap_path, self.armed.load(std::sync::atomic::Ordering::SeqCst)) {
                        if let Ok(snap) = crate::snap::Snap::read(p) {
                            self.log.push(Ev::Snap(Box::new(snap)));
                        }
                    }
                    self.log.push(Ev::GetBlock { hash: *header_hash, height: sb.height });
                    Ok(BlockData::FullBlock(sb.block.clone()))
                }
                None => Err(BlockSourceError::transient("block not found")),
            }
        })
    }

    fn get_best_block(&self) -> AsyncBlockSourceResult<(BlockHash, Option<u32>)> {
        Box::pin(async move {
            crate::events::boundary("src.get_best_block");
            let mut st = lock(&self.state);
            if let Some(e) = self.fault(&mut st, "get_best_block") {
                return Err(e);
            }
            Ok((st.tip(), Some(st.height())))
        })
    }
}
