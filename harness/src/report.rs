//! What a `tv` process reports back to `./check`: per property counters measured by the monitors,
//! a few written-out samples, case hashes for distinct counting, and violations with witnesses.

use serde_json::{json, Value};
use std::collections::{BTreeMap, HashSet};
use std::io::Write;

#[derive(Debug, Clone)]
pub struct Violation {
    /// Narrow, line-number-free signature used to match known findings.
    pub sig: String,
    /// Human readable explanation.
    pub detail: String,
    /// Everything needed to re-execute the case.
    pub replay: Value,
}

#[derive(Default)]
pub struct PropReport {
    pub evaluations: u64,
    pub nontrivial: HashSet<u64>,
    pub samples: Vec<Value>,
    pub counters: BTreeMap<String, u64>,
    pub violations: Vec<Violation>,
    pub inconclusive: u64,
    pub notes: Vec<String>,
    max_samples: usize,
}

impl PropReport {
    pub fn new() -> Self {
        PropReport {
            max_samples: 3,
            ..Default::default()
        }
    }
    pub fn eval(&mut self) {
        self.evaluations += 1;
    }
    pub fn nontrivial(&mut self, h: u64) {
        self.nontrivial.insert(h);
    }
    pub fn count(&mut self, k: &str, n: u64) {
        *self.counters.entry(k.to_string()).or_insert(0) += n;
    }
    pub fn max(&mut self, k: &str, n: u64) {
        let e = self.counters.entry(k.to_string()).or_insert(0);
        if n > *e {
            *e = n;
        }
    }
    pub fn sample(&mut self, v: impl FnOnce() -> Value) {
        if self.samples.len() < self.max_samples {
            self.samples.push(v());
        }
    }
    pub fn violation(&mut self, sig: impl Into<String>, detail: impl Into<String>, replay: Value) {
        // keep at most a handful of witnesses per signature
        let sig = sig.into();
        let same = self.violations.iter().filter(|v| v.sig == sig).count();
        self.count(&format!("violations[{sig}]"), 1);
        if same < 2 {
            self.violations.push(Violation {
                sig,
                detail: detail.into(),
                replay,
            });
        }
    }
    pub fn note(&mut self, s: impl Into<String>) {
        let s = s.into();
        if !self.notes.contains(&s) && self.notes.len() < 50 {
            self.notes.push(s);
        }
    }
}

#[derive(Default)]
pub struct Report {
    pub props: BTreeMap<String, PropReport>,
}

impl Report {
    pub fn new() -> Self {
        Default::default()
    }
    pub fn p(&mut self, id: &str) -> &mut PropReport {
        self.props.entry(id.to_string()).or_insert_with(PropReport::new)
    }

    /// Writes the report: hashes go to `<outdir>/<shard>.<prop>.hashes` (binary, LE u64), the rest as
    /// one JSON document to `<outdir>/<shard>.json`.
    pub fn write(&self, outdir: &str, shard: &str, extra: Value) {
        std::fs::create_dir_all(outdir).ok();
        let mut props = serde_json::Map::new();
        for (id, p) in &self.props {
            let hp = format!("{outdir}/{shard}.{id}.hashes");
            let mut f = std::io::BufWriter::new(std::fs::File::create(&hp).unwrap());
            for h in &p.nontrivial {
                f.write_all(&h.to_le_bytes()).unwrap();
            }
            f.flush().unwrap();
            props.insert(
                id.clone(),
                json!({
                    "evaluations": p.evaluations,
                    "nontrivial_local": p.nontrivial.len(),
                    "hash_file": hp,
                    "samples": p.samples,
                    "counters": p.counters,
                    "inconclusive": p.inconclusive,
                    "notes": p.notes,
                    "violations": p.violations.iter().map(|v| json!({"sig": v.sig, "detail": v.detail, "replay": v.replay})).collect::<Vec<_>>(),
                }),
            );
        }
        let doc = json!({"shard": shard, "props": props, "extra": extra});
        std::fs::write(format!("{outdir}/{shard}.json"), serde_json::to_vec(&doc).unwrap()).unwrap();
    }
}
