//! C20 — effective config = CLI over file over defaults; unsafe configs refused.
//! Uses the real `from_file`, the real structopt definition (`Opt::from_iter_safe`), the real
//! `patch_with_options` and `verify`, against the documented precedence as an independent oracle.

use crate::report::Report;
use crate::rng::{fnv, Rng};
use serde_json::{json, Value};
use std::path::PathBuf;
use structopt::StructOpt;
use teos::config::{self, Config, Opt};

#[derive(Clone, Debug, PartialEq)]
enum V {
    S(String),
    N(u64),
    B(bool),
}

#[derive(Clone, Copy, PartialEq, Debug)]
enum Kind {
    /// valued on the command line and in the file
    Both,
    /// only in the file
    FileOnly,
    /// boolean flag: command line presence or file value
    Flag,
    /// destructive one-shot switch: command line only
    OneShot,
}

struct OptDef {
    name: &'static str,
    kind: Kind,
    ty: char, // 's' string, 'p' u16 port, 'u' u32, 'h' u16
}

const OPTS: &[OptDef] = &[
    OptDef { name: "api_bind", kind: Kind::Both, ty: 's' },
    OptDef { name: "api_port", kind: Kind::Both, ty: 'p' },
    OptDef { name: "rpc_bind", kind: Kind::Both, ty: 's' },
    OptDef { name: "rpc_port", kind: Kind::Both, ty: 'p' },
    OptDef { name: "btc_network", kind: Kind::Both, ty: 'n' },
    OptDef { name: "btc_rpc_user", kind: Kind::Both, ty: 'c' },
    OptDef { name: "btc_rpc_password", kind: Kind::Both, ty: 'c' },
    OptDef { name: "btc_rpc_cookie", kind: Kind::Both, ty: 'c' },
    OptDef { name: "btc_rpc_connect", kind: Kind::Both, ty: 's' },
    OptDef { name: "btc_rpc_port", kind: Kind::Both, ty: 'p' },
    OptDef { name: "tor_control_port", kind: Kind::Both, ty: 'p' },
    OptDef { name: "onion_hidden_service_port", kind: Kind::Both, ty: 'p' },
    OptDef { name: "subscription_slots", kind: Kind::FileOnly, ty: 'u' },
    OptDef { name: "subscription_duration", kind: Kind::FileOnly, ty: 'u' },
    OptDef { name: "expiry_delta", kind: Kind::FileOnly, ty: 'u' },
    OptDef { name: "min_to_self_delay", kind: Kind::FileOnly, ty: 'p' },
    OptDef { name: "polling_delta", kind: Kind::FileOnly, ty: 'p' },
    OptDef { name: "internal_api_bind", kind: Kind::FileOnly, ty: 's' },
    OptDef { name: "internal_api_port", kind: Kind::FileOnly, ty: 'u' },
    OptDef { name: "tor_support", kind: Kind::Flag, ty: 'b' },
    OptDef { name: "debug", kind: Kind::Flag, ty: 'b' },
    OptDef { name: "deps_debug", kind: Kind::Flag, ty: 'b' },
    OptDef { name: "overwrite_key", kind: Kind::OneShot, ty: 'b' },
    OptDef { name: "force_update", kind: Kind::OneShot, ty: 'b' },
];

/// Documented defaults (README / conf_template / `teosd --help`), restated here independently.
fn default_of(name: &str) -> V {
    match name {
        "api_bind" | "rpc_bind" | "internal_api_bind" => V::S("127.0.0.1".into()),
        "api_port" | "onion_hidden_service_port" => V::N(9814),
        "rpc_port" => V::N(8814),
        "btc_network" => V::S("mainnet".into()),
        "btc_rpc_user" | "btc_rpc_password" | "btc_rpc_cookie" => V::S(String::new()),
        "btc_rpc_connect" => V::S("localhost".into()),
        "btc_rpc_port" => V::N(0), // = "pick the network's default"
        "tor_control_port" => V::N(9051),
        "subscription_slots" => V::N(10000),
        "subscription_duration" => V::N(4320),
        "expiry_delta" => V::N(6),
        "min_to_self_delay" => V::N(20),
        "polling_delta" => V::N(60),
        "internal_api_port" => V::N(50051),
        "tor_support" | "debug" | "deps_debug" | "overwrite_key" | "force_update" => V::B(false),
        _ => unreachable!(),
    }
}

const NETS_KNOWN: &[&str] = &["mainnet", "testnet", "signet", "regtest"];
const NETS_UNKNOWN: &[&str] = &["", "bitcoin", "Mainnet", "mainnet ", "regtest2", "simnet", "net", "testnet4", "signetnet"];
// accepted by the code although not in the documented list; no expectation is attached to them
const NETS_GREY: &[&str] = &["main", "test"];

fn net_port(n: &str) -> Option<u64> {
    match n {
        "mainnet" | "main" => Some(8332),
        "testnet" | "test" => Some(18332),
        "regtest" => Some(18443),
        "signet" => Some(38332),
        _ => None,
    }
}

fn gen_value(rng: &mut Rng, d: &OptDef, other_than: Option<&V>) -> V {
    loop {
        let v = match d.ty {
            's' => V::S(rng.pick(&["0.0.0.0", "localhost", "10.1.2.3", "tower.example", "::1", "127.0.0.2"]).to_string()),
            'p' => V::N(rng.range(1, 65535)),
            'u' => V::N(if rng.chance(1, 8) { *rng.pick(&[0u64, 1, u32::MAX as u64]) } else { rng.range(0, 100_000) }),
            'n' => {
                let k = rng.below(10);
                V::S(if k < 6 { rng.pick(NETS_KNOWN) } else if k < 9 { rng.pick(NETS_UNKNOWN) } else { rng.pick(NETS_GREY) }.to_string())
            }
            'c' => V::S(if rng.chance(1, 6) { String::new() } else { rng.pick(&["user", "pa ss", "~/.bitcoin/.cookie", "x", "süß", "--debug"]).to_string() }),
            'b' => V::B(rng.chance(1, 2)),
            _ => unreachable!(),
        };
        if Some(&v) != other_than {
            return v;
        }
    }
}

fn toml_line(name: &str, v: &V) -> String {
    match v {
        V::S(s) => format!("{name} = {}\n", serde_json::to_string(s).unwrap()),
        V::N(n) => format!("{name} = {n}\n"),
        V::B(b) => format!("{name} = {b}\n"),
    }
}

fn cli_args(name: &str, v: &V) -> Vec<String> {
    let flag = format!("--{}", name.replace('_', ""));
    match v {
        V::S(s) => vec![format!("{flag}={s}")],
        V::N(n) => vec![flag, n.to_string()],
        V::B(true) => vec![flag],
        V::B(false) => vec![],
    }
}

fn get(conf: &Value, name: &str) -> V {
    match &conf[name] {
        Value::String(s) => V::S(s.clone()),
        Value::Number(n) => V::N(n.as_u64().unwrap()),
        Value::Bool(b) => V::B(*b),
        other => panic!("unexpected config field {name}: {other}"),
    }
}

pub struct Case {
    pub file: Vec<(usize, V)>,
    pub cli: Vec<(usize, V)>,
}

/// Runs one case through the real code; returns a list of (signature, detail) disagreements.
pub fn check_case(case: &Case, dir: &PathBuf, r: &mut crate::report::PropReport) -> Vec<(String, String)> {
    let mut errs = Vec::new();
    let path = dir.join("teos.toml");
    let mut toml = String::new();
    for (i, v) in &case.file {
        toml.push_str(&toml_line(OPTS[*i].name, v));
    }
    if case.file.is_empty() {
        std::fs::remove_file(&path).ok();
    } else {
        std::fs::write(&path, &toml).unwrap();
    }
    let mut args: Vec<String> = vec!["teosd".into()];
    for (i, v) in &case.cli {
        args.extend(cli_args(OPTS[*i].name, v));
    }
    let opt = match Opt::from_iter_safe(args.iter()) {
        Ok(o) => o,
        Err(e) => {
            // a command line the parser itself rejects is outside the property; count, do not judge
            r.inconclusive += 1;
            r.note(format!("command line rejected by the parser: {}", e.message.lines().next().unwrap_or("")));
            return errs;
        }
    };
    let mut conf: Config = config::from_file(&path);
    conf.patch_with_options(opt);
    let verdict = conf.verify();
    let cj = serde_json::to_value(&conf).unwrap();

    // ---- the oracle: documented precedence
    let mut eff: Vec<V> = Vec::new();
    for (i, d) in OPTS.iter().enumerate() {
        let f = case.file.iter().find(|(j, _)| *j == i).map(|(_, v)| v.clone());
        let c = case.cli.iter().find(|(j, _)| *j == i).map(|(_, v)| v.clone());
        let e = match d.kind {
            Kind::Both => c.or(f).unwrap_or_else(|| default_of(d.name)),
            Kind::FileOnly => f.unwrap_or_else(|| default_of(d.name)),
            // a flag given on the command line means `true`; not given means "say nothing"
            Kind::Flag => match c {
                Some(V::B(true)) => V::B(true),
                _ => f.unwrap_or_else(|| default_of(d.name)),
            },
            Kind::OneShot => match c {
                Some(V::B(true)) => V::B(true),
                _ => V::B(false),
            },
        };
        eff.push(e);
    }
    let e = |name: &str| eff[OPTS.iter().position(|d| d.name == name).unwrap()].clone();
    let s = |v: V| match v {
        V::S(s) => s,
        _ => unreachable!(),
    };
    let (user, pass, cookie) = (s(e("btc_rpc_user")), s(e("btc_rpc_password")), s(e("btc_rpc_cookie")));
    let auth_ok = (!user.is_empty() && !pass.is_empty() && cookie.is_empty()) || (user.is_empty() && pass.is_empty() && !cookie.is_empty());
    let net = s(e("btc_network"));
    let net_known = NETS_KNOWN.contains(&net.as_str());
    let net_grey = NETS_GREY.contains(&net.as_str());
    r.count(&format!("auth_combo[{}{}{}]", !user.is_empty() as u8, !pass.is_empty() as u8, !cookie.is_empty() as u8), 1);
    r.count(&format!("network[{}]", if net_known { net.as_str() } else if net_grey { "grey" } else { "unknown" }), 1);

    let should_start = auth_ok && net_known;
    let must_refuse = !auth_ok || !(net_known || net_grey);
    match (&verdict, should_start, must_refuse) {
        (Ok(_), _, true) => errs.push((
            format!("C20:not-refused:{}", if !auth_ok { "auth" } else { "network" }),
            format!("verify() accepted user={user:?} password={pass:?} cookie={cookie:?} network={net:?}"),
        )),
        (Err(e), true, _) => errs.push(("C20:refused-valid".to_string(), format!("verify() refused a valid configuration: {e}"))),
        _ => {}
    }
    if verdict.is_ok() {
        r.count("accepted", 1);
    } else {
        r.count("refused", 1);
    }

    // every effective setting (compared whether or not verify accepted; verify only touches network/port)
    for (i, d) in OPTS.iter().enumerate() {
        let got = get(&cj, d.name);
        let want = eff[i].clone();
        let ok = match d.name {
            "btc_network" => {
                // verify() normalises mainnet/testnet to bitcoind's names when it gets that far
                let w = s(want.clone());
                let norm = match w.as_str() {
                    "mainnet" => "main",
                    "testnet" => "test",
                    x => x,
                };
                got == want || got == V::S(norm.to_string())
            }
            "btc_rpc_port" => {
                if verdict.is_ok() && want == V::N(0) {
                    got == V::N(net_port(&net).unwrap())
                } else if verdict.is_ok() {
                    got == want
                } else {
                    // refused: the port may or may not have been defaulted yet
                    got == want || (want == V::N(0) && net_port(&net).map(V::N) == Some(got.clone()))
                }
            }
            _ => got == want,
        };
        if !ok {
            let src = (
                case.file.iter().any(|(j, _)| *j == i),
                case.cli.iter().any(|(j, _)| *j == i),
            );
            errs.push((
                format!("C20:precedence:{}:file={}:cli={}", d.name, src.0 as u8, src.1 as u8),
                format!("effective {} = {got:?}, documented precedence gives {want:?} (file: {:?}, cli: {:?})", d.name,
                    case.file.iter().find(|(j, _)| *j == i).map(|x| &x.1), case.cli.iter().find(|(j, _)| *j == i).map(|x| &x.1)),
            ));
        }
    }
    errs
}

fn case_json(c: &Case) -> Value {
    json!({
        "file": c.file.iter().map(|(i, v)| json!([OPTS[*i].name, format!("{v:?}")])).collect::<Vec<_>>(),
        "cli": c.cli.iter().map(|(i, v)| json!([OPTS[*i].name, format!("{v:?}")])).collect::<Vec<_>>(),
    })
}

fn random_rest(rng: &mut Rng, skip: &[usize], valid_bias: bool) -> Case {
    let mut c = Case { file: vec![], cli: vec![] };
    for (i, d) in OPTS.iter().enumerate() {
        if skip.contains(&i) {
            continue;
        }
        let in_file = rng.chance(1, 3);
        let on_cli = d.kind != Kind::FileOnly && rng.chance(1, 3);
        if in_file {
            c.file.push((i, gen_value(rng, d, None)));
        }
        if on_cli {
            let v = if matches!(d.kind, Kind::Flag | Kind::OneShot) { V::B(true) } else { gen_value(rng, d, Some(&V::S(String::new()))) };
            c.cli.push((i, v));
        }
    }
    if valid_bias {
        // make most cases pass verify so that the port/network logic is reached
        let idx = |n: &str| OPTS.iter().position(|d| d.name == n).unwrap();
        for n in ["btc_rpc_user", "btc_rpc_password", "btc_rpc_cookie", "btc_network"] {
            c.file.retain(|(i, _)| *i != idx(n));
            c.cli.retain(|(i, _)| *i != idx(n));
        }
        if rng.chance(1, 2) {
            c.file.push((idx("btc_rpc_user"), V::S("u".into())));
            c.cli.push((idx("btc_rpc_password"), V::S("p".into())));
        } else {
            c.file.push((idx("btc_rpc_cookie"), V::S("/c".into())));
        }
        let net = V::S(rng.pick(NETS_KNOWN).to_string());
        if rng.chance(1, 2) {
            c.file.push((idx("btc_network"), net));
        } else {
            c.cli.push((idx("btc_network"), net));
        }
    }
    c
}

pub fn run(seed: u64, shard: u64, nshards: u64, random_cases: u64, rep: &mut Report) {
    let r = rep.p("C20");
    let dir = PathBuf::from(format!("/dev/shm/tv-c20-{}-{shard}", std::process::id()));
    std::fs::create_dir_all(&dir).unwrap();
    let mut rng = Rng::stream(seed, 0xC20, shard);
    let mut run_case = |c: Case, r: &mut crate::report::PropReport, tag: &str| {
        r.eval();
        let cj = case_json(&c);
        let errs = check_case(&c, &dir, r);
        r.nontrivial(fnv(cj.to_string().as_bytes()));
        r.sample(|| json!({"kind": tag, "case": cj.clone()}));
        for (sig, detail) in errs {
            r.violation(sig, format!("{detail}; case = {cj}"), json!({"engine":"c20","case":cj}));
        }
    };
    // ---- per-option exhaustive: (in file?, on cli?) × rest random, several repetitions
    let reps = 8;
    let mut grid = 0u64;
    for (i, d) in OPTS.iter().enumerate() {
        for in_file in [false, true] {
            for on_cli in [false, true] {
                if on_cli && d.kind == Kind::FileOnly {
                    continue;
                }
                for rep_i in 0..reps {
                    grid += 1;
                    if grid % nshards != shard {
                        continue;
                    }
                    let valid = rep_i % 2 == 0 && !["btc_rpc_user", "btc_rpc_password", "btc_rpc_cookie", "btc_network"].contains(&d.name);
                    let mut c = random_rest(&mut rng, &[i], valid);
                    let fv = gen_value(&mut rng, d, None);
                    if in_file {
                        c.file.push((i, fv.clone()));
                    }
                    if on_cli {
                        let v = if matches!(d.kind, Kind::Flag | Kind::OneShot) { V::B(true) } else { gen_value(&mut rng, d, Some(&fv)) };
                        c.cli.push((i, v));
                    }
                    r.count(&format!("grid[{}:{}{}]", d.name, in_file as u8, on_cli as u8), 1);
                    run_case(c, r, "per-option");
                }
            }
        }
    }
    // ---- networks × explicit / implicit port, credentials: all 8 combinations × all placements
    let idx = |n: &str| OPTS.iter().position(|d| d.name == n).unwrap();
    let mut k = 0u64;
    for net in NETS_KNOWN.iter().chain(NETS_UNKNOWN).chain(NETS_GREY) {
        for net_on_cli in [false, true] {
            for port in [None, Some(false), Some(true)] {
                for combo in 0..8u8 {
                    for placement in 0..8u8 {
                        k += 1;
                        if k % nshards != shard {
                            continue;
                        }
                        let mut c = Case { file: vec![], cli: vec![] };
                        let nv = V::S(net.to_string());
                        if net_on_cli { c.cli.push((idx("btc_network"), nv)) } else { c.file.push((idx("btc_network"), nv)) }
                        if let Some(cli) = port {
                            let pv = V::N(rng.range(1, 65535));
                            if cli { c.cli.push((idx("btc_rpc_port"), pv)) } else { c.file.push((idx("btc_rpc_port"), pv)) }
                        }
                        for (b, name) in ["btc_rpc_user", "btc_rpc_password", "btc_rpc_cookie"].iter().enumerate() {
                            if combo & (1 << b) != 0 {
                                let v = V::S(format!("v{b}"));
                                if placement & (1 << b) != 0 { c.cli.push((idx(name), v)) } else { c.file.push((idx(name), v)) }
                            }
                        }
                        run_case(c, r, "network-credentials");
                    }
                }
            }
        }
    }
    // ---- random combinations
    for _ in 0..random_cases {
        let valid = rng.chance(1, 2);
        let c = random_rest(&mut rng, &[], valid);
        run_case(c, r, "random");
    }
    std::fs::remove_dir_all(&dir).ok();
}
