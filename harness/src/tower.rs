//! A tower instance as a *session function*, mirroring teosd's `main.rs` bootstrap: load key, load
//! last known block, fetch the last 100/6 blocks, build Gatekeeper / Responder / Watcher with the
//! real listener tuple `(gatekeeper, (watcher, responder))` behind the real SpvClient + ChainMonitor,
//! first poll, InternalAPI. Requests enter through the public trait methods of `Arc<InternalAPI>`.

use crate::chain::SimChain;
use crate::node::SimNode;
use bitcoin::secp256k1::{PublicKey, Secp256k1};
use bitcoin::Network;
use lightning_block_sync::init::validate_best_block_header;
use lightning_block_sync::poll::{ChainPoller, Poll, Validate, ValidatedBlock, ValidatedBlockHeader};
use lightning_block_sync::{BlockSource, BlockSourceError, SpvClient, UnboundedCache};
use std::ops::Deref;
use std::path::PathBuf;
use std::sync::Arc;
use teos::api::internal::InternalAPI;
use teos::carrier::Carrier;
use teos::chain_monitor::ChainMonitor;
use teos::dbm::DBM;
use teos::gatekeeper::Gatekeeper;
use teos::protos::private_tower_services_server::PrivateTowerServices;
use teos::protos::public_tower_services_server::PublicTowerServices;
use teos::responder::Responder;
use teos::watcher::Watcher;
use teos_common::constants::IRREVOCABLY_RESOLVED;
use teos_common::cryptography::get_random_keypair;
use teos_common::protos as common_msgs;
use teos_common::verif::sync::{Condvar, Mutex};
use teos_common::TowerId;
use tonic::{Code, Request};

#[derive(Clone, Debug)]
pub struct TowerCfg {
    pub slots: u32,
    pub duration: u32,
    pub grace: u32,
    pub db_path: PathBuf,
}

#[derive(Debug)]
pub enum BootError {
    Db(String),
    NotEnoughBlocks(u32),
    Source(String),
}

pub trait Poller {
    fn poll(&mut self);
}

impl<'a, P: Poll, C: lightning_block_sync::Cache, L: Deref> Poller for ChainMonitor<'a, P, C, L>
where
    L::Target: lightning::chain::Listen,
{
    fn poll(&mut self) {
        futures::executor::block_on(self.poll_best_tip());
    }
}

pub type Reachable = Arc<(Mutex<bool>, Condvar)>;

/// Where requests go: the in-process tower (through the public trait methods of `Arc<InternalAPI>`)
/// or a real `teosd` process (public HTTP API + private mTLS gRPC API, see `remote.rs`).
#[derive(Clone)]
pub enum Api {
    Local(Arc<InternalAPI>),
    Remote(Arc<crate::remote::RemoteApi>),
}

impl Api {
    pub fn local(&self) -> Arc<InternalAPI> {
        match self {
            Api::Local(a) => a.clone(),
            Api::Remote(_) => panic!("in-process API requested from a remote session"),
        }
    }
}

pub struct Session<'a> {
    pub api: Api,
    pub poller: &'a mut dyn Poller,
    pub tower_id: TowerId,
    pub reachable: Reachable,
    pub fresh: bool,
    /// index in the event log where the bootstrap's first poll started
    pub first_poll_log_idx: usize,
    /// is the tower process still there (always true in-process)
    pub alive: &'a dyn Fn() -> bool,
}

async fn get_last_n_blocks<B, T>(poller: &mut ChainPoller<B, T>, mut last_known_block: ValidatedBlockHeader, n: usize) -> Result<Vec<ValidatedBlock>, BlockSourceError>
where
    B: Deref<Target = T> + Sized + Send + Sync,
    T: BlockSource,
{
    let mut last_n_blocks = Vec::with_capacity(n);
    for _ in 0..n {
        let block = poller.fetch_block(&last_known_block).await?;
        last_known_block = poller.look_up_previous_header(&last_known_block).await?;
        last_n_blocks.push(block);
    }
    Ok(last_n_blocks)
}

/// Runs one tower process lifetime. `f` drives it; when `f` returns (or unwinds), every tower object
/// is dropped — what is left is the sqlite file, exactly as after the process died.
pub fn run_session<R>(chain: &SimChain, node: &SimNode, cfg: &TowerCfg, f: impl FnOnce(&mut Session) -> R) -> Result<R, BootError> {
    use futures::executor::block_on;
    chain.armed.store(false, std::sync::atomic::Ordering::SeqCst);
    {
        let dbm = Arc::new(Mutex::new(DBM::new(cfg.db_path.clone()).map_err(|e| BootError::Db(format!("{e:?}")))?));
        let (tower_sk, tower_pk) = {
            let locked_db = dbm.lock().unwrap();
            if let Some(sk) = locked_db.load_tower_key() {
                (sk, PublicKey::from_secret_key(&Secp256k1::new(), &sk))
            } else {
                let (sk, pk) = get_random_keypair();
                locked_db.store_tower_key(&sk).unwrap();
                (sk, pk)
            }
        };
        let bitcoind_reachable: Reachable = Arc::new((Mutex::new(true), Condvar::new()));
        let rpc = Arc::new(node.client());

        let last_known_block = dbm.lock().unwrap().load_last_known_block();
        let tip = if let Some(block_hash) = last_known_block {
            block_on(chain.get_header(&block_hash, None))
                .map_err(|e| BootError::Source(format!("{e:?}")))?
                .validate(block_hash)
                .map_err(|e| BootError::Source(format!("{e:?}")))?
        } else {
            block_on(validate_best_block_header(chain)).map_err(|e| BootError::Source(format!("{e:?}")))?
        };
        if tip.height < IRREVOCABLY_RESOLVED {
            return Err(BootError::NotEnoughBlocks(tip.height));
        }

        // (main.rs) on a fresh bootstrap, persist where we start from
        if last_known_block.is_none() {
            dbm.lock().unwrap().store_last_known_block(&tip.header.block_hash()).unwrap();
        }

        let gatekeeper = Arc::new(Gatekeeper::new(tip.height, cfg.slots, cfg.duration, cfg.grace, dbm.clone()));
        let mut poller = ChainPoller::new(chain, Network::Regtest);
        let (responder, watcher) = {
            let last_n_blocks = block_on(get_last_n_blocks(&mut poller, tip, IRREVOCABLY_RESOLVED as usize))
                .map_err(|e| BootError::Source(format!("{e:?}")))?;
            let responder = Arc::new(Responder::new(
                &last_n_blocks,
                tip.height,
                Carrier::new(rpc, bitcoind_reachable.clone(), tip.height),
                gatekeeper.clone(),
                dbm.clone(),
            ));
            let watcher = Arc::new(Watcher::new(
                gatekeeper.clone(),
                responder.clone(),
                &last_n_blocks[0..6],
                tip.height,
                tower_sk,
                TowerId(tower_pk),
                dbm.clone(),
            ));
            (responder, watcher)
        };
        let fresh = watcher.is_fresh() & responder.is_fresh() & gatekeeper.is_fresh();

        let (shutdown_trigger, shutdown_signal) = triggered::trigger();
        // The ordering matters (main.rs): gatekeeper first, then watcher, then responder.
        // (main.rs) the tip tracker goes last: it records a block once everybody else has processed it
        let processed_tip = Arc::new(Mutex::new(tip.header.block_hash()));
        let tip_tracker = teos::chain_monitor::TipTracker(processed_tip.clone());
        let listener = &(gatekeeper, &(watcher.clone(), &(responder, &tip_tracker)));
        let cache = &mut UnboundedCache::new();
        let spv_client = SpvClient::new(tip, poller, cache, listener);
        let mut chain_monitor = block_on(ChainMonitor::new(spv_client, tip, dbm, 0, shutdown_signal, bitcoind_reachable.clone())).track_processed_tip(processed_tip);
        let first_poll_log_idx = chain.log.len();
        chain.armed.store(true, std::sync::atomic::Ordering::SeqCst);
        block_on(chain_monitor.poll_best_tip());

        let api = Api::Local(Arc::new(InternalAPI::new(watcher, vec![], bitcoind_reachable.clone(), shutdown_trigger)));
        let mut session = Session { api, poller: &mut chain_monitor, tower_id: TowerId(tower_pk), reachable: bitcoind_reachable, fresh, first_poll_log_idx, alive: &|| true };
        Ok(f(&mut session))
    }
}

// ------------------------------------------------------------------------------------------------
// API boundary: plain-data requests and replies

#[derive(Clone, Debug, PartialEq, Eq)]
pub enum ApiErr {
    /// gRPC status code + message
    Status(Code, String),
}

impl ApiErr {
    pub fn code(&self) -> Code {
        match self {
            ApiErr::Status(c, _) => *c,
        }
    }
    pub fn msg(&self) -> &str {
        match self {
            ApiErr::Status(_, m) => m,
        }
    }
}

fn st(s: tonic::Status) -> ApiErr {
    ApiErr::Status(s.code(), s.message().to_string())
}

pub fn register(api: &Api, user_id: Vec<u8>) -> Result<common_msgs::RegisterResponse, ApiErr> {
    let api = match api {
        Api::Local(a) => a,
        Api::Remote(r) => return r.register(user_id),
    };
    futures::executor::block_on(PublicTowerServices::register(api, Request::new(common_msgs::RegisterRequest { user_id })))
        .map(|r| r.into_inner())
        .map_err(st)
}

pub fn add_appointment(api: &Api, locator: Vec<u8>, encrypted_blob: Vec<u8>, to_self_delay: u32, signature: String) -> Result<common_msgs::AddAppointmentResponse, ApiErr> {
    let req = common_msgs::AddAppointmentRequest { appointment: Some(common_msgs::Appointment { locator, encrypted_blob, to_self_delay }), signature };
    let api = match api {
        Api::Local(a) => a,
        Api::Remote(r) => return r.add_appointment(req),
    };
    futures::executor::block_on(PublicTowerServices::add_appointment(api, Request::new(req))).map(|r| r.into_inner()).map_err(st)
}

pub fn get_appointment(api: &Api, locator: Vec<u8>, signature: String) -> Result<common_msgs::GetAppointmentResponse, ApiErr> {
    let req = common_msgs::GetAppointmentRequest { locator, signature };
    let api = match api {
        Api::Local(a) => a,
        Api::Remote(r) => return r.get_appointment(req),
    };
    futures::executor::block_on(PublicTowerServices::get_appointment(api, Request::new(req))).map(|r| r.into_inner()).map_err(st)
}

pub fn get_subscription_info(api: &Api, signature: String) -> Result<common_msgs::GetSubscriptionInfoResponse, ApiErr> {
    let req = common_msgs::GetSubscriptionInfoRequest { signature };
    let api = match api {
        Api::Local(a) => a,
        Api::Remote(r) => return r.get_subscription_info(req),
    };
    futures::executor::block_on(PublicTowerServices::get_subscription_info(api, Request::new(req))).map(|r| r.into_inner()).map_err(st)
}

pub fn get_all_appointments(api: &Api) -> Vec<common_msgs::AppointmentData> {
    match api {
        Api::Local(api) => futures::executor::block_on(PrivateTowerServices::get_all_appointments(api, Request::new(()))).unwrap().into_inner().appointments,
        Api::Remote(r) => r.get_all_appointments(),
    }
}

pub fn get_tower_info(api: &Api) -> teos::protos::GetTowerInfoResponse {
    match api {
        Api::Local(api) => futures::executor::block_on(PrivateTowerServices::get_tower_info(api, Request::new(()))).unwrap().into_inner(),
        Api::Remote(r) => r.get_tower_info(),
    }
}

pub fn get_users(api: &Api) -> Vec<Vec<u8>> {
    match api {
        Api::Local(api) => futures::executor::block_on(PrivateTowerServices::get_users(api, Request::new(()))).unwrap().into_inner().user_ids,
        Api::Remote(r) => r.get_users(),
    }
}

pub fn get_user(api: &Api, user_id: Vec<u8>) -> Option<teos::protos::GetUserResponse> {
    match api {
        Api::Local(api) => futures::executor::block_on(PrivateTowerServices::get_user(api, Request::new(teos::protos::GetUserRequest { user_id }))).ok().map(|r| r.into_inner()),
        Api::Remote(r) => r.get_user(user_id),
    }
}
