//! E3: the real `teosd` binary (built from /repo with the `verif` feature) as a tower session.
//!
//! * `FakeBitcoind` is a JSON-RPC-over-HTTP server backed by the same `SimChain` / `SimNode` the
//!   in-process engines use, so the event log (block downloads, node verdicts, database snapshots at
//!   block boundaries) has the same shape and the same monitors apply.
//! * `RemoteApi` sends the user requests through teosd's public HTTP API and the operator requests
//!   through its private mTLS gRPC API.
//! * `run_remote_session` starts teosd on a data directory, waits until it is parked in a poll, runs
//!   the driver closure and kills the process: what is left is the data directory.
//!
//! Determinism: teosd runs with `polling_delta = 0`; the fake bitcoind *holds* every poll
//! (`getblockchaininfo` of the block source) until the driver grants it, so a block mined by the
//! driver becomes visible to the tower exactly at the driver's `Poll` operation, as in-process.

use crate::chain::{lock, SimChain};
use crate::node::SimNode;
use crate::tower::{Api, ApiErr, BootError, Poller, Session, TowerCfg};
use bitcoin::consensus;
use bitcoin::BlockHash;
use lightning_block_sync::{BlockData, BlockSource};
use serde_json::{json, Value};
use std::io::{Read, Write};
use std::net::{SocketAddr, TcpListener, TcpStream};
use std::path::{Path, PathBuf};
use std::str::FromStr;
use std::sync::atomic::{AtomicBool, Ordering};
use std::sync::{Arc, Condvar, Mutex};
use std::time::{Duration, Instant};
use teos::protos as msgs;
use teos::protos::private_tower_services_client::PrivateTowerServicesClient;
use teos::protos::public_tower_services_client::PublicTowerServicesClient;
use teos_common::constants::IRREVOCABLY_RESOLVED;
use teos_common::protos as common_msgs;
use teos_common::TowerId;
use tonic::transport::{Certificate, Channel, ClientTlsConfig, Identity};
use tonic::{Code, Request};

// ------------------------------------------------------------------------------------------------
// fake bitcoind

thread_local! {
    /// set by `dispatch` (on the connection's own thread) when the reply it is producing is the one to cut
    static CUT_THIS_REPLY: std::cell::Cell<bool> = const { std::cell::Cell::new(false) };
}

#[derive(Default)]
pub struct BtcState {
    /// what `getblockchaininfo` answers to a poll that was not granted
    published: Option<(BlockHash, u32)>,
    permits: u32,
    /// poll requests (armed `getblockchaininfo`) received in this tower process lifetime
    arrivals: u64,
    /// value of `arrivals` when the last granted poll was answered
    granted_at: u64,
    /// granted polls answered so far
    granted: u64,
    parked: bool,
    getblocks: u32,
    pub armed_log_idx: Option<usize>,
    boot_poll_done: bool,
    /// release parked polls with the stale tip (used while shutting the tower down)
    release: bool,
    /// incremented for every tower process: requests of an earlier process are answered stale
    session: u64,
    /// requests received from the current tower process
    pub session_requests: u64,
    /// SIGKILL the tower process when its n-th request (1-based, per process) arrives, before answering
    pub kill_at_request: Option<u64>,
    pub victim_pid: Option<u32>,
    pub killed: bool,
    /// listener address -> (requests received there, Authorization header values seen)
    pub hits: std::collections::BTreeMap<String, (u64, std::collections::BTreeSet<String>)>,
    /// what `getblockchaininfo` reports as `chain`
    pub chain_name: String,
    /// report a pruned node with this prune height
    pub prune_height: Option<u64>,
    /// the node dies while answering its n-th node RPC (0-based, counted like SimNode's outage trigger): the reply
    /// is cut in the middle of its body and everything after it fails
    pub cut_reply_at_node_rpc: Option<u64>,
    pub requests: u64,
    pub methods: std::collections::BTreeMap<String, u64>,
}

pub struct FakeBitcoind {
    pub port: u16,
    pub chain: Arc<SimChain>,
    pub node: SimNode,
    pub st: Arc<(Mutex<BtcState>, Condvar)>,
    stop: Arc<AtomicBool>,
}

fn http_reply(status: u16, body: &[u8]) -> Vec<u8> {
    let reason = match status {
        200 => "OK",
        404 => "Not Found",
        500 => "Internal Server Error",
        _ => "Error",
    };
    let mut out = format!("HTTP/1.1 {status} {reason}\r\nContent-Type: application/json\r\nContent-Length: {}\r\n\r\n", body.len()).into_bytes();
    out.extend_from_slice(body);
    out
}

/// Reads one HTTP request; `Ok(None)` on a clean EOF / stop.
fn read_request(s: &mut TcpStream, stop: &AtomicBool) -> Option<(String, Vec<u8>)> {
    let mut buf: Vec<u8> = Vec::new();
    let mut tmp = [0u8; 16384];
    let mut need: Option<usize> = None;
    loop {
        if let Some(n) = need {
            if buf.len() >= n {
                let head_end = buf.windows(4).position(|w| w == b"\r\n\r\n").unwrap() + 4;
                let head = String::from_utf8_lossy(&buf[..head_end]).to_string();
                let auth = head.lines().find_map(|l| if l.to_ascii_lowercase().starts_with("authorization:") { Some(l[14..].trim().to_string()) } else { None }).unwrap_or_default();
                return Some((auth, buf[head_end..n].to_vec()));
            }
        } else if let Some(p) = buf.windows(4).position(|w| w == b"\r\n\r\n") {
            let head = String::from_utf8_lossy(&buf[..p]).to_ascii_lowercase();
            let cl = head.lines().find_map(|l| l.strip_prefix("content-length:").map(|v| v.trim().parse::<usize>().unwrap_or(0))).unwrap_or(0);
            need = Some(p + 4 + cl);
            continue;
        }
        match s.read(&mut tmp) {
            Ok(0) => return None,
            Ok(n) => buf.extend_from_slice(&tmp[..n]),
            Err(e) if e.kind() == std::io::ErrorKind::WouldBlock || e.kind() == std::io::ErrorKind::TimedOut => {
                if stop.load(Ordering::SeqCst) {
                    return None;
                }
            }
            Err(_) => return None,
        }
    }
}

impl FakeBitcoind {
    pub fn start(chain: Arc<SimChain>, node: SimNode) -> Arc<FakeBitcoind> {
        let listener = TcpListener::bind("127.0.0.1:0").expect("bind fake bitcoind");
        let port = listener.local_addr().unwrap().port();
        listener.set_nonblocking(true).unwrap();
        let me = Arc::new(FakeBitcoind { port, chain, node, st: Arc::new((Mutex::new(BtcState::default()), Condvar::new())), stop: Arc::new(AtomicBool::new(false)) });
        let srv = me.clone();
        std::thread::spawn(move || loop {
            if srv.stop.load(Ordering::SeqCst) {
                break;
            }
            match listener.accept() {
                Ok((sock, _)) => {
                    let srv = srv.clone();
                    let label = format!("127.0.0.1:{port}");
                    std::thread::spawn(move || srv.serve(sock, label));
                }
                Err(_) => std::thread::sleep(Duration::from_millis(2)),
            }
        });
        me
    }

    /// One more listening address (the configuration engine tells by the address which setting teosd followed).
    pub fn add_listener(self: &Arc<Self>, addr: SocketAddr) -> std::io::Result<()> {
        let listener = TcpListener::bind(addr)?;
        listener.set_nonblocking(true)?;
        let srv = self.clone();
        std::thread::spawn(move || loop {
            if srv.stop.load(Ordering::SeqCst) {
                break;
            }
            match listener.accept() {
                Ok((sock, _)) => {
                    let srv = srv.clone();
                    let label = addr.to_string();
                    std::thread::spawn(move || srv.serve(sock, label));
                }
                Err(_) => std::thread::sleep(Duration::from_millis(2)),
            }
        });
        Ok(())
    }

    pub fn shutdown(&self) {
        self.stop.store(true, Ordering::SeqCst);
        let (m, cv) = &*self.st;
        lock(m).release = true;
        cv.notify_all();
    }

    /// A new tower process is about to start: forget the per-process poll bookkeeping.
    pub fn new_session(&self) {
        let (m, _) = &*self.st;
        let mut st = lock(m);
        st.permits = 0;
        st.arrivals = 0;
        st.granted_at = 0;
        st.granted = 0;
        st.parked = false;
        st.getblocks = 0;
        st.armed_log_idx = None;
        st.boot_poll_done = false;
        st.release = false;
        st.session += 1;
        st.session_requests = 0;
        st.kill_at_request = None;
        st.victim_pid = None;
        st.killed = false;
        self.chain.armed.store(false, Ordering::SeqCst);
        self.st.1.notify_all();
    }

    /// SIGKILLs the current tower process (unblocks whoever waits for it).
    pub fn kill_victim(&self) {
        if let Some(pid) = lock(&self.st.0).victim_pid {
            unsafe {
                libc::kill(pid as i32, libc::SIGKILL);
            }
        }
    }

    /// Answers parked (and future) polls with the last published tip, without waiting for a grant.
    pub fn release_polls(&self) {
        let (m, cv) = &*self.st;
        lock(m).release = true;
        cv.notify_all();
    }

    /// Waits until the tower is parked in a poll (bootstrap complete, interfaces up).
    pub fn wait_parked(&self, deadline: Instant, alive: &mut dyn FnMut() -> bool) -> Result<usize, String> {
        let (m, cv) = &*self.st;
        let mut st = lock(m);
        loop {
            if st.parked {
                return Ok(st.armed_log_idx.unwrap_or(0));
            }
            if Instant::now() > deadline {
                return Err(format!("teosd never reached its polling loop (requests={}, getblocks={}, boot_poll_done={})", st.requests, st.getblocks, st.boot_poll_done));
            }
            let (g, _) = cv.wait_timeout(st, Duration::from_millis(50)).unwrap_or_else(|e| e.into_inner());
            st = g;
            if !st.parked && !alive() {
                return Err("teosd exited during bootstrap".into());
            }
        }
    }

    /// Grants one poll and waits until the tower has completed it (i.e. is parked in the next one).
    pub fn grant_poll(&self, timeout: Duration, alive: &mut dyn FnMut() -> bool) -> Result<(), String> {
        let (m, cv) = &*self.st;
        let deadline = Instant::now() + timeout;
        let mut st = lock(m);
        let target = st.granted + 1;
        st.permits += 1;
        cv.notify_all();
        loop {
            if st.granted >= target && st.arrivals > st.granted_at && st.parked {
                return Ok(());
            }
            if Instant::now() > deadline {
                return Err(format!("poll not completed within {timeout:?} (granted={}, arrivals={}, granted_at={}, parked={})", st.granted, st.arrivals, st.granted_at, st.parked));
            }
            let (g, _) = cv.wait_timeout(st, Duration::from_millis(50)).unwrap_or_else(|e| e.into_inner());
            st = g;
            if !alive() {
                return Err("teosd exited during a poll".into());
            }
        }
    }

    fn chain_info(&self, tip: BlockHash, height: u32) -> Value {
        let work = lock(&self.chain.state).header_data(&tip).map(|h| h.chainwork).unwrap_or(bitcoin::Work::from_be_bytes([0; 32]));
        let chain_name = {
            let n = lock(&self.st.0).chain_name.clone();
            if n.is_empty() {
                "regtest".to_string()
            } else {
                n
            }
        };
        let prune = lock(&self.st.0).prune_height;
        let mut v = json!({
            "chain": chain_name, "blocks": height, "headers": height, "bestblockhash": tip.to_string(),
            "difficulty": 1.0, "mediantime": 0, "verificationprogress": 1.0, "initialblockdownload": false,
            "chainwork": hex::encode(work.to_be_bytes()), "size_on_disk": 0, "pruned": false, "softforks": {}, "warnings": "",
        });
        if let Some(p) = prune {
            v["pruned"] = json!(true);
            v["pruneheight"] = json!(p);
        }
        v
    }

    /// `Ok(Ok(v))` result, `Ok(Err((code,msg)))` RPC error, `Err(())` drop the connection.
    fn dispatch(&self, method: &str, params: &Value) -> Result<Result<Value, (i32, String)>, ()> {
        use futures::executor::block_on;
        {
            let mut st = lock(&self.st.0);
            st.requests += 1;
            st.session_requests += 1;
            *st.methods.entry(method.to_string()).or_insert(0) += 1;
            if st.kill_at_request == Some(st.session_requests) {
                let mut spins = 0;
                while st.victim_pid.is_none() && spins < 100 {
                    drop(st);
                    std::thread::sleep(Duration::from_millis(2));
                    st = lock(&self.st.0);
                    spins += 1;
                }
                if let Some(pid) = st.victim_pid {
                    unsafe {
                        libc::kill(pid as i32, libc::SIGKILL);
                    }
                    st.killed = true;
                    st.kill_at_request = None;
                    self.st.1.notify_all();
                    return Err(());
                }
            }
        }
        let src_err = |e: lightning_block_sync::BlockSourceError| -> Result<Result<Value, (i32, String)>, ()> {
            match e.kind() {
                lightning_block_sync::BlockSourceErrorKind::Transient => Err(()),
                lightning_block_sync::BlockSourceErrorKind::Persistent => Ok(Err((-1, "persistent failure".into()))),
            }
        };
        match method {
            "getblockchaininfo" => {
                let (m, cv) = &*self.st;
                let armed = self.chain.armed.load(Ordering::SeqCst);
                if !armed {
                    // bootstrap: network check, best block, prune check (never goes through the block-source fault plan)
                    let (tip, h) = {
                        let cs = lock(&self.chain.state);
                        (cs.tip(), cs.height())
                    };
                    lock(m).published = Some((tip, h));
                    return Ok(Ok(self.chain_info(tip, h)));
                }
                let mut st = lock(m);
                st.arrivals += 1;
                let fresh = if !st.boot_poll_done {
                    // the poll teosd does before turning its interfaces on
                    st.boot_poll_done = true;
                    true
                } else {
                    st.parked = true;
                    cv.notify_all();
                    let t0 = Instant::now();
                    let my_session = st.session;
                    let mut granted = false;
                    loop {
                        if st.session != my_session {
                            // the process that sent this request is gone
                            return Err(());
                        }
                        if st.permits > 0 {
                            st.permits -= 1;
                            granted = true;
                            break;
                        }
                        if st.release || self.stop.load(Ordering::SeqCst) || t0.elapsed() > Duration::from_secs(60) {
                            break;
                        }
                        let (g, _) = cv.wait_timeout(st, Duration::from_millis(100)).unwrap_or_else(|e| e.into_inner());
                        st = g;
                    }
                    st.parked = false;
                    granted
                };
                if fresh {
                    drop(st);
                    let r = block_on(self.chain.get_best_block());
                    let mut st = lock(m);
                    if !matches!(st.boot_poll_done && st.granted_at == 0 && st.granted == 0 && st.arrivals == 1, true) {
                        st.granted += 1;
                        st.granted_at = st.arrivals;
                    }
                    cv.notify_all();
                    match r {
                        Ok((tip, h)) => {
                            st.published = Some((tip, h.unwrap_or(0)));
                            drop(st);
                            Ok(Ok(self.chain_info(tip, h.unwrap_or(0))))
                        }
                        Err(e) => {
                            drop(st);
                            src_err(e)
                        }
                    }
                } else {
                    let (tip, h) = st.published.expect("a tip was published during bootstrap");
                    drop(st);
                    Ok(Ok(self.chain_info(tip, h)))
                }
            }
            "getnetworkinfo" => Ok(Ok(json!({
                "version": 250000, "subversion": "/Satoshi:25.0.0/", "protocolversion": 70016, "localservices": "0000000000000409", "localrelay": true,
                "timeoffset": 0, "connections": 0, "networkactive": true, "networks": [], "relayfee": 0.00001, "incrementalfee": 0.00001,
                "localaddresses": [], "warnings": "",
            }))),
            "getblockheader" => {
                let hash = match params.get(0).and_then(|h| h.as_str()).and_then(|h| BlockHash::from_str(h).ok()) {
                    Some(h) => h,
                    None => return Ok(Err((-8, "bad block hash".into()))),
                };
                match block_on(self.chain.get_header(&hash, None)) {
                    Ok(d) => Ok(Ok(json!({
                        "hash": hash.to_string(), "confirmations": 1, "height": d.height, "version": d.header.version.to_consensus(),
                        "merkleroot": d.header.merkle_root.to_string(), "time": d.header.time, "mediantime": d.header.time, "nonce": d.header.nonce,
                        "bits": hex::encode(d.header.bits.to_consensus().to_be_bytes()), "difficulty": 1.0,
                        "chainwork": hex::encode(d.chainwork.to_be_bytes()), "nTx": 1, "previousblockhash": d.header.prev_blockhash.to_string(),
                    }))),
                    Err(e) => src_err(e),
                }
            }
            "getblock" => {
                let hash = match params.get(0).and_then(|h| h.as_str()).and_then(|h| BlockHash::from_str(h).ok()) {
                    Some(h) => h,
                    None => return Ok(Err((-8, "bad block hash".into()))),
                };
                let r = block_on(self.chain.get_block(&hash));
                {
                    let mut st = lock(&self.st.0);
                    st.getblocks += 1;
                    if st.getblocks == IRREVOCABLY_RESOLVED && !self.chain.armed.load(Ordering::SeqCst) {
                        // the bootstrap has fetched its block cache: what follows are polls
                        st.armed_log_idx = Some(self.chain.log.len());
                        self.chain.armed.store(true, Ordering::SeqCst);
                    }
                }
                match r {
                    Ok(BlockData::FullBlock(b)) => Ok(Ok(json!(hex::encode(consensus::serialize(&b))))),
                    Ok(_) => Ok(Err((-1, "header only".into()))),
                    Err(e) => src_err(e),
                }
            }
            "getblockhash" => {
                let h = params.get(0).and_then(|h| h.as_u64()).unwrap_or(u64::MAX);
                let cs = lock(&self.chain.state);
                if h <= cs.height() as u64 {
                    Ok(Ok(json!(cs.block_at(h as u32).block.block_hash().to_string())))
                } else {
                    Ok(Err((-8, "Block height out of range".into())))
                }
            }
            _ => {
                {
                    let mut st = lock(&self.st.0);
                    if let Some(k) = st.cut_reply_at_node_rpc {
                        if lock(&self.node.state).rpc_calls == k && !self.node.down.load(Ordering::SeqCst) {
                            CUT_THIS_REPLY.with(|c| c.set(true));
                            st.cut_reply_at_node_rpc = None;
                        }
                    }
                }
                match self.node.handle(method, params) {
                    Ok(r) => Ok(r),
                    Err(_) => Err(()),
                }
            }
        }
    }

    fn serve(self: Arc<Self>, mut sock: TcpStream, label: String) {
        sock.set_nonblocking(false).ok();
        sock.set_read_timeout(Some(Duration::from_millis(200))).ok();
        sock.set_nodelay(true).ok();
        loop {
            let body = match read_request(&mut sock, &self.stop) {
                Some((auth, b)) => {
                    let mut st = lock(&self.st.0);
                    let e = st.hits.entry(label.clone()).or_insert((0, Default::default()));
                    e.0 += 1;
                    e.1.insert(auth);
                    b
                }
                None => return,
            };
            let req: Value = match serde_json::from_slice(&body) {
                Ok(v) => v,
                Err(_) => {
                    let _ = sock.write_all(&http_reply(500, b"{\"result\":null,\"error\":{\"code\":-32700,\"message\":\"Parse error\"},\"id\":null}"));
                    continue;
                }
            };
            let id = req.get("id").cloned().unwrap_or(Value::Null);
            let method = req.get("method").and_then(|m| m.as_str()).unwrap_or("").to_string();
            let params = req.get("params").cloned().unwrap_or(Value::Null);
            let outcome = self.dispatch(&method, &params);
            let cut = CUT_THIS_REPLY.with(|c| c.replace(false));
            let full = match &outcome {
                Ok(Ok(v)) => Some(http_reply(200, &serde_json::to_vec(&json!({"result": v, "error": null, "id": id})).unwrap())),
                Ok(Err((code, message))) => Some(http_reply(if *code == -32601 { 404 } else { 500 }, &serde_json::to_vec(&json!({"result": null, "error": {"code": code, "message": message}, "id": id})).unwrap())),
                Err(()) => None,
            };
            if let (true, Some(full)) = (cut, &full) {
                // the node process dies right here: headers and half of the body are out, the rest never comes
                let body_len = full.len() - full.windows(4).position(|w| w == b"\r\n\r\n").map(|p| p + 4).unwrap_or(0);
                let keep = full.len() - body_len / 2 - 1;
                let _ = sock.write_all(&full[..keep]);
                self.node.down.store(true, Ordering::SeqCst);
                let _ = sock.shutdown(std::net::Shutdown::Both);
                return;
            }
            match outcome {
                Ok(_) => {
                    if sock.write_all(full.as_ref().unwrap()).is_err() {
                        return;
                    }
                }
                Err(()) => {
                    // node unreachable: the connection dies without an answer
                    let _ = sock.shutdown(std::net::Shutdown::Both);
                    return;
                }
            }
        }
    }
}

// ------------------------------------------------------------------------------------------------
// teosd's APIs

pub struct RemoteApi {
    pub http: SocketAddr,
    rt: tokio::runtime::Runtime,
    private: Mutex<PrivateTowerServicesClient<Channel>>,
    /// teosd's internal (plaintext gRPC) API: what its HTTP front-end forwards to
    internal: Mutex<PublicTowerServicesClient<Channel>>,
    pub http_calls: std::sync::atomic::AtomicU64,
    pub grpc_calls: std::sync::atomic::AtomicU64,
    /// a request died at the transport level (connection refused / reset): the process is gone or going
    pub transport_failed: AtomicBool,
    /// bound on every call, in milliseconds (read when a call starts)
    pub call_timeout_ms: std::sync::atomic::AtomicU64,
}

// body limits of the HTTP front-end (teos/src/api/http.rs): requests beyond them cannot be sent over
// HTTP at all (413) and are delivered to the internal gRPC API instead, like empty-signature requests
// (refused by the front-end before they reach the tower)
const REGISTER_BODY_LEN: usize = 87;
const ADD_APPOINTMENT_BODY_LEN: usize = 2048;
const GET_APPOINTMENT_BODY_LEN: usize = 178;
const GET_SUBSCRIPTION_INFO_BODY_LEN: usize = 127;



fn code_of(status: u16, error_code: u64) -> Code {
    use teos_common::errors;
    match (status, error_code as u8) {
        (404, _) => Code::NotFound,
        (401, _) => Code::Unauthenticated,
        (503, _) => Code::Unavailable,
        (_, c) if (errors::MISSING_FIELD..=errors::INVALID_REQUEST_FORMAT).contains(&c) || c == errors::APPOINTMENT_FIELD_TOO_SMALL || c == errors::APPOINTMENT_FIELD_TOO_BIG => Code::InvalidArgument,
        (_, c) if c == errors::APPOINTMENT_ALREADY_TRIGGERED => Code::AlreadyExists,
        (_, c) if c == errors::REGISTRATION_RESOURCE_EXHAUSTED => Code::ResourceExhausted,
        _ => Code::Unknown,
    }
}

impl RemoteApi {
    pub fn connect(http: SocketAddr, rpc_port: u16, internal_port: u16, datadir: &Path) -> Result<RemoteApi, String> {
        let rt = tokio::runtime::Builder::new_multi_thread().worker_threads(1).enable_all().build().map_err(|e| e.to_string())?;
        let key = std::fs::read(datadir.join("client-key.pem")).map_err(|e| format!("client key: {e}"))?;
        let cert = std::fs::read(datadir.join("client.pem")).map_err(|e| format!("client cert: {e}"))?;
        let ca = std::fs::read(datadir.join("ca.pem")).map_err(|e| format!("ca cert: {e}"))?;
        let tls = ClientTlsConfig::new().domain_name("localhost").ca_certificate(Certificate::from_pem(ca)).identity(Identity::from_pem(cert, key));
        let channel = rt.block_on(async {
            let ep = Channel::from_shared(format!("https://127.0.0.1:{rpc_port}")).map_err(|e| e.to_string())?.tls_config(tls).map_err(|e| e.to_string())?;
            let mut last = String::new();
            for _ in 0..50 {
                match ep.connect().await {
                    Ok(c) => return Ok(c),
                    Err(e) => last = format!("{e:?}"),
                }
                tokio::time::sleep(Duration::from_millis(100)).await;
            }
            Err(format!("cannot connect to the private API: {last}"))
        })?;
        let internal = rt.block_on(async { Channel::from_shared(format!("http://127.0.0.1:{internal_port}")).map_err(|e| e.to_string())?.connect().await.map_err(|e| format!("internal API: {e:?}")) })?;
        Ok(RemoteApi { http, rt, private: Mutex::new(PrivateTowerServicesClient::new(channel)), internal: Mutex::new(PublicTowerServicesClient::new(internal)), http_calls: Default::default(), grpc_calls: Default::default(), transport_failed: AtomicBool::new(false), call_timeout_ms: std::sync::atomic::AtomicU64::new(45_000) })
    }

    fn st(&self, s: tonic::Status) -> ApiErr {
        if s.message().contains("transport error") || s.message().contains("error trying to connect") || s.message().contains("connection") && s.code() == Code::Unavailable {
            self.transport_failed.store(true, Ordering::SeqCst);
        }
        ApiErr::Status(s.code(), s.message().to_string())
    }

    /// Drives one gRPC call with a generous wall-clock bound (a call that never returns is reported as
    /// `DeadlineExceeded`, not waited for).
    fn grpc<T>(&self, fut: impl std::future::Future<Output = Result<tonic::Response<T>, tonic::Status>>) -> Result<tonic::Response<T>, tonic::Status> {
        self.rt.block_on(async {
            match tokio::time::timeout(Duration::from_millis(self.call_timeout_ms.load(Ordering::SeqCst)), fut).await {
                Ok(r) => r,
                Err(_) => Err(tonic::Status::new(Code::DeadlineExceeded, "no answer within the harness's bound")),
            }
        })
    }

    fn post<T: serde::de::DeserializeOwned>(&self, path: &str, body: Vec<u8>) -> Result<T, ApiErr> {
        self.http_calls.fetch_add(1, Ordering::SeqCst);
        let r = crate::e5::raw_request(self.http, "POST", path, Some("application/json"), &body, Duration::from_millis(self.call_timeout_ms.load(Ordering::SeqCst))).map_err(|e| {
            if e.contains("timed out") || e.contains("WouldBlock") || e.contains("Resource temporarily unavailable") {
                return ApiErr::Status(Code::DeadlineExceeded, format!("no answer within the harness's bound: {e}"));
            }
            self.transport_failed.store(true, Ordering::SeqCst);
            ApiErr::Status(Code::Internal, format!("transport: {e}"))
        })?;
        if r.status == 200 {
            serde_json::from_slice::<T>(&r.body).map_err(|e| ApiErr::Status(Code::Internal, format!("undecodable 200 reply: {e}: {}", String::from_utf8_lossy(&r.body))))
        } else {
            let v: Value = serde_json::from_slice(&r.body).unwrap_or(Value::Null);
            let code = code_of(r.status, v.get("error_code").and_then(|c| c.as_u64()).unwrap_or(255));
            Err(ApiErr::Status(code, v.get("error").and_then(|e| e.as_str()).unwrap_or("").to_string()))
        }
    }

    pub fn register(&self, user_id: Vec<u8>) -> Result<common_msgs::RegisterResponse, ApiErr> {
        let req = common_msgs::RegisterRequest { user_id };
        let body = serde_json::to_vec(&req).unwrap();
        if body.len() <= REGISTER_BODY_LEN && req.user_id.len() == teos_common::USER_ID_LEN {
            return self.post("/register", body);
        }
        self.grpc_calls.fetch_add(1, Ordering::SeqCst);
        let mut c = lock(&self.internal).clone();
        self.grpc(c.register(Request::new(req))).map(|r| r.into_inner()).map_err(|e| self.st(e))
    }
    pub fn add_appointment(&self, req: common_msgs::AddAppointmentRequest) -> Result<common_msgs::AddAppointmentResponse, ApiErr> {
        let body = serde_json::to_vec(&req).unwrap();
        if body.len() <= ADD_APPOINTMENT_BODY_LEN && !req.signature.is_empty() {
            return self.post("/add_appointment", body);
        }
        self.grpc_calls.fetch_add(1, Ordering::SeqCst);
        let mut c = lock(&self.internal).clone();
        self.grpc(c.add_appointment(Request::new(req))).map(|r| r.into_inner()).map_err(|e| self.st(e))
    }
    pub fn get_appointment(&self, req: common_msgs::GetAppointmentRequest) -> Result<common_msgs::GetAppointmentResponse, ApiErr> {
        let body = serde_json::to_vec(&req).unwrap();
        if body.len() <= GET_APPOINTMENT_BODY_LEN && !req.signature.is_empty() {
            return self.post("/get_appointment", body);
        }
        self.grpc_calls.fetch_add(1, Ordering::SeqCst);
        let mut c = lock(&self.internal).clone();
        self.grpc(c.get_appointment(Request::new(req))).map(|r| r.into_inner()).map_err(|e| self.st(e))
    }
    pub fn get_subscription_info(&self, req: common_msgs::GetSubscriptionInfoRequest) -> Result<common_msgs::GetSubscriptionInfoResponse, ApiErr> {
        let body = serde_json::to_vec(&req).unwrap();
        if body.len() <= GET_SUBSCRIPTION_INFO_BODY_LEN && !req.signature.is_empty() {
            return self.post("/get_subscription_info", body);
        }
        self.grpc_calls.fetch_add(1, Ordering::SeqCst);
        let mut c = lock(&self.internal).clone();
        self.grpc(c.get_subscription_info(Request::new(req))).map(|r| r.into_inner()).map_err(|e| self.st(e))
    }

    /// Private API calls are bounded like the public ones: a wedged tower must not hang the harness (the caller's
    /// `expect` turns the time-out into a harness failure, never into a verdict).
    fn private_call<T>(&self, fut: impl std::future::Future<Output = Result<T, tonic::Status>>) -> Result<T, tonic::Status> {
        self.rt.block_on(async {
            match tokio::time::timeout(Duration::from_millis(self.call_timeout_ms.load(Ordering::SeqCst).max(45_000)), fut).await {
                Ok(r) => r,
                Err(_) => Err(tonic::Status::deadline_exceeded("no answer from the private API")),
            }
        })
    }
    pub fn get_all_appointments(&self) -> Vec<common_msgs::AppointmentData> {
        let mut c = lock(&self.private).clone();
        self.private_call(c.get_all_appointments(Request::new(()))).expect("get_all_appointments").into_inner().appointments
    }
    pub fn get_tower_info(&self) -> msgs::GetTowerInfoResponse {
        let mut c = lock(&self.private).clone();
        self.private_call(c.get_tower_info(Request::new(()))).expect("get_tower_info").into_inner()
    }
    pub fn get_users(&self) -> Vec<Vec<u8>> {
        let mut c = lock(&self.private).clone();
        self.private_call(c.get_users(Request::new(()))).expect("get_users").into_inner().user_ids
    }
    pub fn get_user(&self, user_id: Vec<u8>) -> Option<msgs::GetUserResponse> {
        let mut c = lock(&self.private).clone();
        self.private_call(c.get_user(Request::new(msgs::GetUserRequest { user_id }))).ok().map(|r| r.into_inner())
    }
    pub fn stop(&self) -> bool {
        let mut c = lock(&self.private).clone();
        self.private_call(c.stop(Request::new(()))).is_ok()
    }
}

// ------------------------------------------------------------------------------------------------
// the teosd process

pub fn teosd_bin() -> PathBuf {
    PathBuf::from(std::env::var("TV_BINS").unwrap_or_else(|_| "/verif/target/bins/release".into())).join("teosd")
}

/// A listening port for teosd, taken from below the kernel's ephemeral range (so that no outgoing
/// connection of a concurrent process can sit on it) and spread by process id.
pub fn free_port() -> u16 {
    static NEXT: std::sync::atomic::AtomicU32 = std::sync::atomic::AtomicU32::new(0);
    let pid = std::process::id();
    loop {
        let k = NEXT.fetch_add(1, Ordering::SeqCst);
        let port = 10_000 + ((pid.wrapping_mul(7919).wrapping_add(k.wrapping_mul(13))) % 22_000) as u16;
        // never the documented default ports: the configuration engine (e3cfg) needs them free
        if [18332u16, 18443, 9814, 8814, 8332, 38332, 50051].contains(&port) {
            continue;
        }
        if TcpListener::bind(("127.0.0.1", port)).is_ok() {
            return port;
        }
    }
}

pub struct Teosd {
    pub child: std::process::Child,
    pub datadir: PathBuf,
    pub api_port: u16,
    pub rpc_port: u16,
    pub internal_port: u16,
    pub out_path: PathBuf,
}

#[derive(Clone, Default)]
pub struct TeosdOpts {
    pub abort_at: Option<usize>,
    pub trace: Option<PathBuf>,
    /// SIGKILL the process when the fake bitcoind receives its n-th request from it
    pub kill_at_request: Option<u64>,
    pub extra_args: Vec<String>,
    /// run teosd under this command (e.g. `valgrind --error-exitcode=97 -q`)
    pub wrapper: Vec<String>,
    /// use these (api, rpc, internal) ports instead of fresh ones (a tower that must be found again after a restart)
    pub fixed_ports: Option<(u16, u16, u16)>,
    /// extra `key = value` lines for teos.toml
    pub extra_conf: Vec<String>,
}

impl Teosd {
    pub fn spawn(datadir: &Path, cfg: &TowerCfg, btc_port: u16, opts: &TeosdOpts) -> Result<Teosd, String> {
        std::fs::create_dir_all(datadir).map_err(|e| e.to_string())?;
        let (api_port, rpc_port, internal_port) = opts.fixed_ports.unwrap_or_else(|| (free_port(), free_port(), free_port()));
        let mut conf = format!(
            "api_bind = \"127.0.0.1\"\napi_port = {api_port}\nrpc_bind = \"127.0.0.1\"\nrpc_port = {rpc_port}\nbtc_network = \"regtest\"\nbtc_rpc_user = \"user\"\nbtc_rpc_password = \"passwd\"\nbtc_rpc_connect = \"127.0.0.1\"\nbtc_rpc_port = {btc_port}\nsubscription_slots = {}\nsubscription_duration = {}\nexpiry_delta = {}\npolling_delta = 0\ninternal_api_bind = \"127.0.0.1\"\ninternal_api_port = {internal_port}\n",
            cfg.slots, cfg.duration, cfg.grace
        );
        for l in &opts.extra_conf {
            conf.push_str(l);
            conf.push('\n');
        }
        std::fs::write(datadir.join("teos.toml"), conf).map_err(|e| e.to_string())?;
        let out_path = datadir.join("teosd.out");
        let out = std::fs::OpenOptions::new().create(true).append(true).open(&out_path).map_err(|e| e.to_string())?;
        let err = out.try_clone().map_err(|e| e.to_string())?;
        let mut cmd = if opts.wrapper.is_empty() {
            std::process::Command::new(teosd_bin())
        } else {
            let mut c = std::process::Command::new(&opts.wrapper[0]);
            c.args(&opts.wrapper[1..]).arg(teosd_bin());
            c
        };
        cmd.arg("--datadir").arg(datadir).args(&opts.extra_args).env("RUST_BACKTRACE", "0").stdin(std::process::Stdio::null()).stdout(out).stderr(err);
        cmd.env_remove("TEOS_VERIF_ABORT_AT").env_remove("TEOS_VERIF_TRACE");
        if let Some(n) = opts.abort_at {
            cmd.env("TEOS_VERIF_ABORT_AT", n.to_string());
        }
        if let Some(t) = &opts.trace {
            cmd.env("TEOS_VERIF_TRACE", t);
        }
        unsafe {
            use std::os::unix::process::CommandExt;
            cmd.pre_exec(|| {
                let lim = libc::rlimit { rlim_cur: 0, rlim_max: 0 };
                libc::setrlimit(libc::RLIMIT_CORE, &lim);
                Ok(())
            });
        }
        let child = cmd.spawn().map_err(|e| format!("cannot start {}: {e}", teosd_bin().display()))?;
        Ok(Teosd { child, datadir: datadir.to_path_buf(), api_port, rpc_port, internal_port, out_path })
    }

    pub fn alive(&mut self) -> bool {
        matches!(self.child.try_wait(), Ok(None))
    }

    pub fn output(&self) -> String {
        std::fs::read_to_string(&self.out_path).unwrap_or_default()
    }

    pub fn kill(&mut self) {
        let _ = self.child.kill();
        let _ = self.child.wait();
    }

    /// Waits for the process to exit on its own.
    pub fn wait_exit(&mut self, timeout: Duration) -> Option<std::process::ExitStatus> {
        let t0 = Instant::now();
        loop {
            if let Ok(Some(s)) = self.child.try_wait() {
                return Some(s);
            }
            if t0.elapsed() > timeout {
                return None;
            }
            std::thread::sleep(Duration::from_millis(20));
        }
    }
}

impl Drop for Teosd {
    fn drop(&mut self) {
        self.kill();
    }
}

/// The first panic message teosd printed, if any (`thread '...' panicked at file:line:col:\nmsg`).
pub fn panic_in(output: &str) -> Option<(String, String)> {
    let p = output.find("panicked at ")?;
    let rest = &output[p + "panicked at ".len()..];
    let mut lines = rest.lines();
    let loc = lines.next().unwrap_or("").trim_end_matches(':').to_string();
    let msg = lines.next().unwrap_or("").to_string();
    Some((loc, msg))
}

struct RemotePoller<'a> {
    btc: &'a FakeBitcoind,
    teosd: &'a Mutex<Teosd>,
    pub failed: &'a Mutex<Option<String>>,
}

impl Poller for RemotePoller<'_> {
    fn poll(&mut self) {
        let t = self.teosd;
        if let Err(e) = self.btc.grant_poll(Duration::from_secs(120), &mut || lock(t).alive()) {
            *lock(self.failed) = Some(e);
        }
    }
}

pub enum StopMode {
    Kill,
    Graceful,
}

pub struct RemoteOutcome<R> {
    pub value: R,
    /// teosd's stdout+stderr
    pub output: String,
    /// the process was still running when the driver returned
    pub alive_at_end: bool,
    pub poll_failure: Option<String>,
    /// `Some(false)` if a graceful stop was requested and the process did not exit in time
    pub graceful_exit: Option<bool>,
}

/// One lifetime of a real teosd process on `datadir`, the database being `<datadir>/regtest/teos_db.sql3`.
pub fn run_remote_session<R>(btc: &FakeBitcoind, datadir: &Path, cfg: &TowerCfg, opts: &TeosdOpts, stop: StopMode, f: impl FnOnce(&mut Session) -> R) -> Result<RemoteOutcome<R>, BootError> {
    let mut attempt = 0;
    let (teosd, first_poll_log_idx) = loop {
        attempt += 1;
        btc.new_session();
        lock(&btc.st.0).kill_at_request = opts.kill_at_request;
        let mut t = Teosd::spawn(datadir, cfg, btc.port, opts).map_err(BootError::Source)?;
        lock(&btc.st.0).victim_pid = Some(t.child.id());
        let r = btc.wait_parked(Instant::now() + Duration::from_secs(if opts.wrapper.is_empty() { 60 } else { 600 }), &mut || t.alive());
        match r {
            Ok(idx) => break (t, idx),
            Err(e) => {
                let out = t.output();
                t.kill();
                if attempt < 4 && (out.contains("AddrInUse") || out.contains("Address already in use")) {
                    continue;
                }
                let tail: String = out.lines().rev().take(6).collect::<Vec<_>>().into_iter().rev().collect::<Vec<_>>().join(" | ");
                if out.contains("Not enough blocks to start teosd") {
                    return Err(BootError::NotEnoughBlocks(0));
                }
                return Err(BootError::Source(format!("{e}; output tail: {tail}")));
            }
        }
    };
    let http: SocketAddr = format!("127.0.0.1:{}", teosd.api_port).parse().unwrap();
    let api = Arc::new(RemoteApi::connect(http, teosd.rpc_port, teosd.internal_port, datadir).map_err(|e| {
        let out = teosd.output();
        BootError::Source(format!("{e}; teosd output tail: {}", out.lines().rev().take(4).collect::<Vec<_>>().join(" | ")))
    })?);
    let info = api.get_tower_info();
    let tower_id = TowerId::from_slice(&info.tower_id).map_err(|e| BootError::Source(format!("tower id: {e:?}")))?;
    let teosd = Mutex::new(teosd);
    let failed = Mutex::new(None);
    let reachable = Arc::new((teos_common::verif::sync::Mutex::new(true), teos_common::verif::sync::Condvar::new()));
    let value = {
        let mut poller = RemotePoller { btc, teosd: &teosd, failed: &failed };
        let alive = || {
            if api.transport_failed.load(Ordering::SeqCst) {
                // a dying process may take a moment to be reaped
                let _ = lock(&teosd).wait_exit(Duration::from_secs(5));
                return false;
            }
            lock(&teosd).alive()
        };
        let mut session = Session { api: Api::Remote(api.clone()), poller: &mut poller, tower_id, reachable, fresh: false, first_poll_log_idx, alive: &alive };
        f(&mut session)
    };
    let mut teosd = teosd.into_inner().unwrap_or_else(|e| e.into_inner());
    let alive_at_end = teosd.alive();
    let mut graceful_exit = None;
    if let (StopMode::Graceful, true) = (&stop, alive_at_end) {
        let asked = api.stop();
        btc.release_polls();
        graceful_exit = Some(asked && teosd.wait_exit(Duration::from_secs(if opts.wrapper.is_empty() { 20 } else { 300 })).is_some());
    }
    teosd.kill();
    let output = teosd.output();
    let poll_failure = lock(&failed).take();
    Ok(RemoteOutcome { value, output, alive_at_end, poll_failure, graceful_exit })
}
