//! C03 — crash at any instant + restart loses no acknowledged work (in-process fault enumeration).
//!
//! For a history H (an E1 case that passed all sequential monitors) the uninterrupted run records
//! the database content after every operation and the number of crash points hit (`point()` calls
//! around every durable write / explicit commit, plus every node RPC and block-source call). Then H
//! is re-executed once per crash point k: the observer unwinds at the k-th point with a private
//! payload, every tower object is dropped (open sqlite transactions roll back — what process death
//! leaves on disk), the bootstrap sequence runs again on the same file, the one request that was in
//! flight is re-issued (as a real client would), and H continues. From the crash onwards the
//! database content after every operation is compared with the uninterrupted run's.
//!
//! A second fault family covers "crash combined with a failed block download": a multi-block poll
//! in which the download of the m-th block fails, followed by a restart.

use crate::chain::{lock, SrcFault};
use crate::e1::{run_case, Case};
use crate::panics::{self, CrashPayload};
use crate::report::Report;
use crate::rng::fnv;
use crate::snap::Snap;
use crate::tower::{self, Session};
use crate::world::{Op, Signer, World};
use serde_json::json;
use std::collections::BTreeMap;
use std::panic::{catch_unwind, AssertUnwindSafe};
use std::path::PathBuf;
use std::sync::atomic::{AtomicUsize, Ordering};
use std::sync::{Arc, Mutex};
use teos_common::verif::{set_observer, Observer};
use teos_common::TowerId;

pub struct CrashObserver {
    pub count: AtomicUsize,
    pub crash_at: AtomicUsize,
    pub names: Mutex<Vec<String>>,
    pub record: bool,
}

impl Observer for CrashObserver {
    fn point(&self, name: &str) {
        let n = self.count.fetch_add(1, Ordering::SeqCst) + 1;
        if self.record {
            let op = crate::events::CUR_OP.load(Ordering::SeqCst);
            self.names.lock().unwrap_or_else(|e| e.into_inner()).push(format!("{name}@{}", if op == usize::MAX { "boot".to_string() } else { op.to_string() }));
        }
        if n == self.crash_at.load(Ordering::SeqCst) {
            std::panic::panic_any(CrashPayload(name.to_string()));
        }
    }
}

#[derive(Clone, Debug)]
pub enum Fault {
    /// unwind at the k-th crash point (1-based)
    CrashAt(usize),
    /// like `CrashAt` for a point inside a poll, but the tower stays down while the history's next blocks are
    /// mined (the chain operations that follow the poll, up to the next poll): the restart's own catch-up has
    /// to process them
    CrashAtMineDown(usize),
    /// during operation `op` (a poll), fail the download of the m-th block (0-based), then restart
    DownloadFailure { op: usize, block: usize, persistent: bool },
}

pub fn exec_raw(world: &mut World, s: &mut Session, op: &Op, salt: u64) {
    match op.clone() {
        Op::Register { user } => {
            let _ = tower::register(&s.api, world.users[user].1.serialize().to_vec());
        }
        Op::RegisterBadId { len } => {
            let _ = tower::register(&s.api, vec![7u8; len]);
        }
        Op::Add { ver, sig, .. } => {
            let v = world.versions[ver].clone();
            let _ = tower::add_appointment(&s.api, world.chans[v.chan].locator.clone(), v.blob, v.tsd, sig);
        }
        Op::GetAppt { chan, sig, .. } => {
            let _ = tower::get_appointment(&s.api, world.chans[chan].locator.clone(), sig);
        }
        Op::GetSub { sig, .. } => {
            let _ = tower::get_subscription_info(&s.api, sig);
        }
        Op::Mine { blocks } => world.mine(&blocks, salt),
        Op::Reorg { depth, blocks } => world.reorg(depth, &blocks, salt),
        Op::Poll => s.poller.poll(),
        Op::Script { tx, script } => {
            let txid = world.resolve(&tx, salt).compute_txid();
            world.set_script(txid, script);
        }
        Op::TxIndex { on } => lock(&world.node.state).txindex = on,
        Op::Restart => unreachable!(),
    }
}

/// Compares the database of the faulted run with the uninterrupted run's at the same position.
/// `allowance` = slots a user may be short of (cost of the request that was in flight).
pub fn compare(base: &Snap, got: &Snap, allowance: &BTreeMap<Vec<u8>, u32>, ctx: &str) -> Option<(String, String)> {
    if got.fk_violations > 0 {
        return Some(("C03:dangling-record".into(), format!("{ctx}: foreign_key_check reports {} dangling rows", got.fk_violations)));
    }
    for uuid in got.trackers.keys() {
        if !got.appts.contains_key(uuid) {
            return Some(("C03:tracker-without-appointment".into(), format!("{ctx}: tracker {} without appointment", hex::encode(&uuid[..6]))));
        }
    }
    for a in got.appts.values() {
        if !got.users.contains_key(&a.user_id) {
            return Some(("C03:appointment-without-user".into(), format!("{ctx}: appointment without owner")));
        }
    }
    for (id, b) in &base.users {
        match got.users.get(id) {
            None => return Some(("C03:user-lost".into(), format!("{ctx}: user {} exists in the uninterrupted run but not after the crash", hex::encode(&id[..6])))),
            Some(g) => {
                if g.available_slots > b.available_slots {
                    return Some(("C03:slots-granted".into(), format!("{ctx}: user {} has {} slots, {} in the uninterrupted run: the crash granted slots", hex::encode(&id[..6]), g.available_slots, b.available_slots)));
                }
                let short = b.available_slots - g.available_slots;
                if short > allowance.get(id).copied().unwrap_or(0) {
                    return Some(("C03:slots-lost".into(), format!("{ctx}: user {} is {} slots short of the uninterrupted run, more than the request in flight cost ({})", hex::encode(&id[..6]), short, allowance.get(id).copied().unwrap_or(0))));
                }
                if g.expiry != b.expiry || g.start != b.start {
                    return Some(("C03:subscription-differs".into(), format!("{ctx}: user {} has (start {}, expiry {}), uninterrupted run ({}, {})", hex::encode(&id[..6]), g.start, g.expiry, b.start, b.expiry)));
                }
            }
        }
    }
    for id in got.users.keys() {
        if !base.users.contains_key(id) {
            return Some(("C03:user-extra".into(), format!("{ctx}: a user exists after the crash that the uninterrupted run does not have (purge missed?)")));
        }
    }
    for (uuid, b) in &base.appts {
        match got.appts.get(uuid) {
            None => {
                let kind = if base.trackers.contains_key(uuid) { "responded" } else { "watched" };
                return Some((format!("C03:appointment-lost:{kind}"), format!("{ctx}: the {kind} appointment {} of the uninterrupted run is not held after the crash", hex::encode(&uuid[..6]))));
            }
            Some(g) => {
                if g.blob != b.blob || g.to_self_delay != b.to_self_delay || g.user_signature != b.user_signature || g.user_id != b.user_id || g.locator != b.locator {
                    return Some(("C03:appointment-differs".into(), format!("{ctx}: appointment {} differs from the uninterrupted run", hex::encode(&uuid[..6]))));
                }
            }
        }
        match (base.trackers.get(uuid), got.trackers.get(uuid)) {
            (Some(_), None) => return Some(("C03:response-lost".into(), format!("{ctx}: appointment {} is responded in the uninterrupted run but only watched after the crash (breach not answered)", hex::encode(&uuid[..6])))),
            (None, Some(_)) => return Some(("C03:response-extra".into(), format!("{ctx}: appointment {} has a tracker only after the crash", hex::encode(&uuid[..6])))),
            (Some(bt), Some(gt)) => {
                if bt.dispute_tx != gt.dispute_tx || bt.penalty_tx != gt.penalty_tx {
                    return Some(("C03:tracker-differs".into(), format!("{ctx}: tracker {} holds other transactions than in the uninterrupted run", hex::encode(&uuid[..6]))));
                }
                if bt.confirmed != gt.confirmed || (bt.confirmed && bt.height != gt.height) {
                    return Some(("C03:tracker-confirmation-differs".into(), format!("{ctx}: tracker {} is (confirmed {}, height {}), uninterrupted run (confirmed {}, height {})", hex::encode(&uuid[..6]), gt.confirmed, gt.height, bt.confirmed, bt.height)));
                }
            }
            (None, None) => {}
        }
    }
    for uuid in got.appts.keys() {
        if !base.appts.contains_key(uuid) {
            return Some(("C03:appointment-extra".into(), format!("{ctx}: appointment {} is held after the crash but not in the uninterrupted run (completion / drop / purge missed?)", hex::encode(&uuid[..6]))));
        }
    }
    if base.last_known_block != got.last_known_block {
        return Some(("C03:last-known-block-differs".into(), format!("{ctx}: the persisted last known block differs from the uninterrupted run")));
    }
    None
}

pub fn compare_pub(base: &Snap, got: &Snap, ctx: &str) -> Option<(String, String)> {
    compare(base, got, &BTreeMap::new(), ctx)
}

pub struct FaultRun {
    pub violation: Option<(String, String)>,
    pub crashed_in: Option<String>,
    pub crash_point_name: Option<String>,
    pub restarts: u64,
    pub hit: bool,
}

/// Re-executes the recorded history `ops` on `world` with one fault.
fn debug_dump_events(world: &World, label: &str) {
    if std::env::var("TV_DEBUG").is_err() {
        return;
    }
    for (i, e) in world.log.since(0).iter().enumerate() {
        match e {
            crate::events::Ev::Send { txid, verdict } => eprintln!("[{label}] ev{i} send {} {verdict:?}", &txid.to_string()[..8]),
            crate::events::Ev::GetRaw { txid, found, .. } => eprintln!("[{label}] ev{i} getraw {} {found:?}", &txid.to_string()[..8]),
            crate::events::Ev::GetBlock { height, hash } => eprintln!("[{label}] ev{i} getblock h={height} {}", &hash.to_string()[..8]),
            _ => {}
        }
    }
}

pub fn run_faulted(world: &mut World, cfg: &tower::TowerCfg, ops: &[Op], base_snaps: &[Snap], fault: &Fault, salt: u64) -> FaultRun {
    let obs = Arc::new(CrashObserver { count: AtomicUsize::new(0), crash_at: AtomicUsize::new(match fault { Fault::CrashAt(k) | Fault::CrashAtMineDown(k) => *k, _ => 0 }), names: Mutex::new(vec![]), record: false });
    set_observer(Some(obs.clone()));
    let chain = world.simchain();
    let node = world.node.clone();
    let mut i = 0usize; // next operation
    let mut tower_id: Option<TowerId> = None;
    let mut fr = FaultRun { violation: None, crashed_in: None, crash_point_name: None, restarts: 0, hit: false };
    let mut compare_from: Option<usize> = None;
    let mut allowance: BTreeMap<Vec<u8>, u32> = BTreeMap::new();
    let mut redo_after_crash = false;
    let mut force_restart_after: Option<usize> = None;
    let in_op = std::cell::Cell::new(false);
    let mut shrinking_update_in_flight = false;
    // operations already applied to the chain while the tower was down
    let mut applied_while_down: std::collections::BTreeSet<usize> = Default::default();
    let _ = std::fs::remove_file(&cfg.db_path);
    loop {
        let before_i = i;
        let res = catch_unwind(AssertUnwindSafe(|| {
            tower::run_session(&chain, &node, cfg, |s| -> Option<(String, String)> {
                match tower_id {
                    None => tower_id = Some(s.tower_id),
                    Some(t) if t != s.tower_id => return Some(("C03:tower-id-changed".into(), "the tower id changed across the restart".into())),
                    _ => {}
                }
                if redo_after_crash {
                    redo_after_crash = false;
                    // the request that got no reply: a client that never saw the registration receipt asks
                    // again only if the registration did not take effect
                    if let Op::Register { user } = &ops[i] {
                        let id = world.users[*user].1.serialize().to_vec();
                        let now = Snap::read(&cfg.db_path).ok();
                        let took_effect = now.as_ref().and_then(|n| n.users.get(&id)).map(|u| (u.available_slots, u.expiry)) == base_snaps[i].users.get(&id).map(|u| (u.available_slots, u.expiry));
                        if took_effect {
                            i += 1;
                        }
                    }
                }
                while i < ops.len() {
                    if applied_while_down.contains(&i) {
                        i += 1;
                        continue;
                    }
                    if let Op::Restart = ops[i] {
                        i += 1;
                        return None;
                    }
                    if let Fault::DownloadFailure { op, block, persistent } = fault {
                        if *op == i && !fr.hit {
                            // mark the `block`-th block this poll has to connect as undownloadable
                            let tip = Snap::read(&cfg.db_path).ok().and_then(|sn| sn.last_known_block).map(|b| {
                                use bitcoin::hashes::Hash;
                                bitcoin::BlockHash::from_slice(&b).unwrap()
                            });
                            if let Some(tip) = tip {
                                let connects = lock(&world.chain).connects_from(&tip);
                                if connects.len() >= 2 && *block < connects.len() {
                                    lock(&world.chain).undownloadable.insert(connects[*block], if *persistent { SrcFault::Persistent } else { SrcFault::Transient });
                                    fr.hit = true;
                                    force_restart_after = Some(i);
                                    compare_from = Some(i);
                                }
                            }
                        }
                    }
                    in_op.set(true);
                    if std::env::var("TV_DEBUG").is_ok() {
                        let sn = Snap::read(&cfg.db_path).unwrap_or_default();
                        eprintln!("[faulted] before op #{i} {:?}: users {:?} appts {} trackers {} points so far {}", short_op(&ops[i]), sn.users.values().map(|u| (u.available_slots, u.expiry)).collect::<Vec<_>>(), sn.appts.len(), sn.trackers.len(), obs.count.load(Ordering::SeqCst));
                    }
                    exec_raw(world, s, &ops[i], salt);
                    in_op.set(false);
                    let did = i;
                    i += 1;
                    if force_restart_after == Some(did) {
                        // the poll could not download one of its blocks. What did the tower persist as its
                        // starting point for the next bootstrap?
                        let lkb = Snap::read(&cfg.db_path).ok().and_then(|sn| sn.last_known_block);
                        let cs = lock(&world.chain);
                        let failed: Vec<bitcoin::BlockHash> = cs.undownloadable.keys().cloned().collect();
                        if let (Some(lkb), Some(f)) = (lkb, failed.first()) {
                            let fh = cs.blocks[f].height;
                            // the persisted block counts only if it is on the node's active chain: after a reorg the tower may
                            // rightly keep the tip it was disconnecting (a restart then handles the reorg from scratch)
                            let lh = cs.blocks.iter().find(|(k, _)| AsRef::<[u8]>::as_ref(*k) == &lkb[..]).map(|(k, sb)| (sb.height, cs.active.get(sb.height as usize) == Some(k)));
                            if let Some((lh, on_active_chain)) = lh {
                                if lh >= fh && on_active_chain {
                                    return Some((
                                        "C03:last-known-block-persisted-ahead-of-processing".into(),
                                        format!("the download of the block at height {fh} failed during operation #{did} (a poll towards height {}), so blocks from {fh} on were not processed, yet the tower persisted height {lh} as its last known block: a restart now skips the unprocessed blocks", cs.height()),
                                    ));
                                }
                            }
                        }
                        drop(cs);
                        // the node is fine again; the operator restarts the tower
                        lock(&world.chain).undownloadable.clear();
                        force_restart_after = None;
                        i = did; // the poll is issued again after the restart
                        return None;
                    }
                    if let Some(from) = compare_from {
                        if did >= from {
                            let got = match Snap::read(&cfg.db_path) {
                                Ok(g) => g,
                                Err(e) => return Some(("C03:db-unreadable".into(), e)),
                            };
                            if let Some(v) = compare(&base_snaps[did], &got, &allowance, &format!("after operation #{did} {:?}", short_op(&ops[did]))) {
                                return Some(v);
                            }
                        }
                    }
                }
                None
            })
        }));
        match res {
            Ok(Ok(Some(mut v))) => {
                if v.0 == "C03:slots-granted" && shrinking_update_in_flight {
                    v.0 = "C03:slots-granted:shrinking-update-in-flight".into();
                    v.1.push_str(" — the request in flight replaced an appointment by a smaller one: the slots it frees are returned (and persisted) before the stored appointment is replaced, so after the crash the client's retry is refunded a second time");
                }
                if v.0 == "C03:response-lost" && !applied_while_down.is_empty() {
                    // Which responses are missing? If every one of them is a penalty that the tower had handed to the
                    // node before it died, that confirmed while the tower was down, and that the node answered
                    // "already in chain" (-27) to when the restarted tower re-processed the breach, the breach IS
                    // answered and the appointment is held; what is missing is the tracker (see known findings).
                    if let (Ok(got), Some(did)) = (Snap::read(&cfg.db_path), v.1.split('#').nth(1).and_then(|x| x.split_whitespace().next()).and_then(|x| x.parse::<usize>().ok())) {
                        let base = &base_snaps[did];
                        let missing: Vec<&crate::snap::TrackerRow> = base.trackers.iter().filter(|(u, _)| got.appts.contains_key(*u) && !got.trackers.contains_key(*u)).map(|(_, t)| t).collect();
                        let evs = world.log.since(0);
                        let all_confirmed_while_down = !missing.is_empty()
                            && missing.iter().all(|t| {
                                let txid = bitcoin::consensus::deserialize::<bitcoin::Transaction>(&t.penalty_tx).map(|x| x.compute_txid());
                                match txid {
                                    Ok(txid) => {
                                        lock(&world.chain).confirmed_height(&txid, usize::MAX).is_some()
                                            && evs.iter().any(|e| matches!(e, crate::events::Ev::Send { txid: x, verdict: crate::events::Verdict::Code(-27) } if *x == txid))
                                            && evs.iter().any(|e| matches!(e, crate::events::Ev::Send { txid: x, verdict: crate::events::Verdict::Accepted | crate::events::Verdict::AlreadyInMempool } if *x == txid))
                                    }
                                    Err(_) => false,
                                }
                            });
                        if all_confirmed_while_down {
                            v.0 = "C03:response-untracked:penalty-confirmed-while-tower-down".into();
                            v.1.push_str(" — the tower had handed that penalty to the node before it died (between sending it and storing the tracker, or before the block was finished), the penalty confirmed while the tower was down, and the restarted tower, re-processing the breach, got 'already in chain' and created no tracker");
                        }
                    }
                }
                fr.violation = Some(v);
                debug_dump_events(world, "faulted");
                break;
            }
            Ok(Ok(None)) => {
                if i >= ops.len() {
                    break;
                }
                fr.restarts += 1;
            }
            Ok(Err(e)) => {
                fr.violation = Some(("C03:restart-failed".into(), format!("the tower failed to start after the fault: {e:?}")));
                break;
            }
            Err(p) => {
                if let Some(c) = p.downcast_ref::<CrashPayload>() {
                    fr.hit = true;
                    fr.crash_point_name = Some(c.0.clone());
                    obs.crash_at.store(0, Ordering::SeqCst);
                    fr.restarts += 1;
                    let _ = before_i;
                    if i < ops.len() && in_op.replace(false) {
                        fr.crashed_in = Some(short_op(&ops[i]));
                        compare_from = Some(compare_from.unwrap_or(i).min(i));
                        redo_after_crash = true;
                        if let (Fault::CrashAtMineDown(_), Op::Poll) = (fault, &ops[i]) {
                            // the history's next chain operations happen while the tower is down
                            let mut j = i + 1;
                            // (only mining: a reorg while the tower is down may remove the very block it died in, which the
                            // uninterrupted run has processed and the restarted tower rightly never sees)
                            while j < ops.len() && matches!(ops[j], Op::Mine { .. }) {
                                j += 1;
                            }
                            // causality: those blocks were generated for the uninterrupted run; a penalty in them that
                            // this (crashed) tower has not handed to the node yet could not have been mined
                            let causal = (i + 1..j).all(|q| {
                                let blocks: &Vec<Vec<crate::world::TxRef>> = match &ops[q] {
                                    Op::Mine { blocks } => blocks,
                                    Op::Reorg { blocks, .. } => blocks,
                                    _ => return true,
                                };
                                let st = lock(&world.node.state);
                                blocks.iter().flatten().all(|t| match t {
                                    crate::world::TxRef::Penalty(_) => st.mempool.contains_key(&world.resolve(t, salt).compute_txid()),
                                    _ => true,
                                })
                            });
                            if causal && j > i + 1 && j < ops.len() && matches!(ops[j], Op::Poll) {
                                for q in i + 1..j {
                                    match &ops[q] {
                                        Op::Mine { blocks } => world.mine(blocks, salt),
                                        Op::Reorg { depth, blocks } => world.reorg(*depth, blocks, salt),
                                        _ => {}
                                    }
                                    applied_while_down.insert(q);
                                }
                                // comparable again once the uninterrupted run has polled those blocks too
                                compare_from = Some(j);
                                fr.crashed_in = Some("Poll+blocks-mined-while-down".into());
                            }
                        }
                        if let Op::Add { signer: Signer::User(u), ver, good: true, .. } = &ops[i] {
                            let id = world.users[*u].1.serialize().to_vec();
                            *allowance.entry(id).or_insert(0) += world.versions[*ver].cost();
                            // was the request in flight replacing a bigger appointment by a smaller one?
                            let uuid = crate::model::uuid_of(world, (*u, world.versions[*ver].chan));
                            if i > 0 {
                                if let Some(old) = base_snaps[i - 1].appts.get(&uuid) {
                                    let old_cost = std::cmp::max(1, (old.blob.len() as u32 + 2047) / 2048);
                                    if old_cost > world.versions[*ver].cost() && !base_snaps[i - 1].trackers.contains_key(&uuid) {
                                        shrinking_update_in_flight = true;
                                    }
                                }
                            }
                        }
                    } else {
                        fr.crashed_in = Some("bootstrap".into());
                        compare_from = Some(compare_from.unwrap_or(i).min(i));
                    }
                    // the database must be sane right after the crash as well
                    if let Ok(g) = Snap::read(&cfg.db_path) {
                        if g.fk_violations > 0 || g.trackers.keys().any(|k| !g.appts.contains_key(k)) {
                            fr.violation = Some(("C03:dangling-record".into(), format!("right after a crash at {}: dangling rows in the database", c.0)));
                            break;
                        }
                    }
                } else {
                    let recs = panics::take();
                    let (f, m) = recs.last().map(|r| (r.function.clone(), r.message.clone())).unwrap_or(("?".into(), "?".into()));
                    fr.violation = Some((format!("C03:panic-after-fault:fn={f}"), format!("tower code panicked in {f}: {m} (operation #{i})")));
                    break;
                }
            }
        }
    }
    set_observer(None);
    let _ = std::fs::remove_file(&cfg.db_path);
    fr
}

pub fn short_op(op: &Op) -> String {
    let s = format!("{op:?}");
    s.split([' ', '{']).next().unwrap_or("?").to_string()
}

/// First id of the scripted "lifecycle" histories (see `lifecycle_case`).
pub const LIFECYCLE_BASE: u64 = 6_000_000;

/// Scripted histories that drive appointments to the ends of their lives — a tracker reaching its
/// last confirmation, a subscription running out with appointments and trackers attached — one block
/// per poll, so that every durable write of those rare transitions is a crash point of its own.
/// Returns the case and the index of the first operation of the focus window (crash points before it
/// are not enumerated: the random `crash` histories cover those operations).
pub fn lifecycle_case(seed: u64, id: u64, dir: &PathBuf) -> (Case, Vec<std::ops::Range<usize>>) {
    use crate::world::{BlobKind, SigKind, TxRef};
    let mut rng = crate::rng::Rng::stream(seed, id, 0xC3);
    let expiry_variant = id % 2 == 1;
    let grace = *rng.pick(&[0u32, 1, 2, 6]);
    let duration = if expiry_variant { 3 + rng.below(5) as u32 } else { 500 };
    let mut case = Case::new_cfg(seed, id, "crash", dir, Some((1000, duration, grace)));
    let n_users = case.world.users.len().min(2);
    let mut ops: Vec<Op> = Vec::new();
    for u in 0..n_users {
        ops.push(Op::Register { user: u });
    }
    let n_track = 1 + rng.usize(3).min(case.world.chans.len() - 2);
    let mut vers: Vec<usize> = Vec::new();
    let mut add = |case: &mut Case, rng: &mut crate::rng::Rng, ops: &mut Vec<Op>, chan: usize, user: usize| -> usize {
        let target = 100 + rng.usize(300);
        let ver = case.world.new_version(rng, chan, BlobKind::Valid, target);
        let msg = case.world.versions[ver].msg(&case.world.chans);
        let sig = case.world.sign(rng, Signer::User(user), &msg, SigKind::Good);
        ops.push(Op::Add { signer: Signer::User(user), ver, sig, good: true });
        ver
    };
    for c in 0..n_track {
        let u = rng.usize(n_users);
        vers.push(add(&mut case, &mut rng, &mut ops, c, u));
        if rng.chance(30, 100) && n_users > 1 {
            // the same channel watched for the other user too (two appointments, one locator)
            let _ = add(&mut case, &mut rng, &mut ops, c, 1 - u);
        }
    }
    // an appointment that is never triggered
    let u = rng.usize(n_users);
    let _ = add(&mut case, &mut rng, &mut ops, n_track, u);
    // disputes: one block, or one block each
    let first_dispute_op = ops.len();
    let spread = rng.chance(60, 100);
    if spread {
        for c in 0..n_track {
            ops.push(Op::Mine { blocks: vec![vec![TxRef::Dispute(c)]] });
            ops.push(Op::Poll);
        }
    } else {
        ops.push(Op::Mine { blocks: vec![(0..n_track).map(TxRef::Dispute).collect()] });
        ops.push(Op::Poll);
    }
    let focus;
    // end of the early window (breaches answered, penalties confirming), also enumerated
    let mut early_end = ops.len();
    if expiry_variant {
        // penalties confirm (or not), then the subscriptions run out block by block
        if rng.chance(60, 100) {
            ops.push(Op::Mine { blocks: vec![vers.iter().map(|v| TxRef::Penalty(*v)).collect()] });
            ops.push(Op::Poll);
        }
        focus = ops.len();
        early_end = focus;
        for _ in 0..(duration + grace + 3) {
            ops.push(Op::Mine { blocks: vec![vec![]] });
            ops.push(Op::Poll);
        }
    } else {
        if spread {
            for v in &vers {
                ops.push(Op::Mine { blocks: vec![vec![TxRef::Penalty(*v)]] });
                ops.push(Op::Poll);
            }
        } else {
            ops.push(Op::Mine { blocks: vec![vers.iter().map(|v| TxRef::Penalty(*v)).collect()] });
            ops.push(Op::Poll);
        }
        early_end = ops.len();
        ops.push(Op::Mine { blocks: (0..96).map(|_| vec![]).collect() });
        ops.push(Op::Poll);
        focus = ops.len();
        for _ in 0..(5 + n_track) {
            ops.push(Op::Mine { blocks: vec![vec![]] });
            ops.push(Op::Poll);
        }
    }
    for u in 0..n_users {
        let sig = case.world.sign(&mut rng, Signer::User(u), b"get subscription info", SigKind::Good);
        ops.push(Op::GetSub { signer: Signer::User(u), sig, good: true });
    }
    let n_ops = ops.len();
    case.max_steps = ops.len();
    case.ops = ops.clone();
    case.script = Some(ops);
    let _ = &mut early_end;
    (case, vec![first_dispute_op..early_end, focus..n_ops])
}

pub fn run(seed: u64, shard: u64, nshards: u64, cases: u64, max_points_per_case: usize, only: Option<(u64, Fault)>, rep: &mut Report) {
    panics::install();
    let dir = PathBuf::from(format!("/dev/shm/tv-e1c-{}", std::process::id()));
    std::fs::create_dir_all(&dir).unwrap();
    let ids: Vec<u64> = match &only {
        Some((c, _)) => vec![*c],
        None => (0..cases).map(|i| 5_000_000 + shard + i * nshards).chain((0..cases).map(|i| LIFECYCLE_BASE + shard + i * nshards)).collect(),
    };
    for id in ids {
        // ---- uninterrupted run (model-checked), counting crash points
        let (mut case, focus) = if id >= LIFECYCLE_BASE { lifecycle_case(seed, id, &dir) } else { (Case::new(seed, id, "crash", &dir), Vec::new()) };
        case.probe = false;
        case.record_snaps = true;
        let pristine = case.world.fork();
        let obs = Arc::new(CrashObserver { count: AtomicUsize::new(0), crash_at: AtomicUsize::new(0), names: Mutex::new(vec![]), record: true });
        set_observer(Some(obs.clone()));
        run_case(&mut case);
        set_observer(None);
        debug_dump_events(&case.world, "reference");
        let r = rep.p("C03");
        if !case.viols.is_empty() || case.tolerated_divergence || case.snaps.len() != case.ops.len() {
            // the uninterrupted run itself is not a valid reference (other properties' business)
            r.count("histories_skipped_as_reference", 1);
            continue;
        }
        let n_points = obs.count.load(Ordering::SeqCst);
        let names = obs.names.lock().unwrap().clone();
        r.count(if id >= LIFECYCLE_BASE { "lifecycle_histories" } else { "histories" }, 1);
        r.count("crash_points_in_histories", n_points as u64);
        let mut world0 = pristine;
        world0.versions = case.world.versions.clone();
        for v in &world0.versions {
            if let Some(p) = &v.penalty {
                lock(&world0.node.state).parent.insert(p.compute_txid(), world0.chans[v.chan].dtxid);
            }
        }
        let cfg = tower::TowerCfg { db_path: dir.join(format!("crash-{id}.sqlite")), ..case.cfg.clone() };
        // ---- fault plan
        let mut faults: Vec<Fault> = Vec::new();
        match &only {
            Some((_, f)) => faults.push(f.clone()),
            None => {
                // every crash point inside an operation; of the (read-only, repetitive) bootstrap phases
                // every durable-write point plus a few of the block / header downloads
                let mut selected: Vec<usize> = Vec::new();
                let mut boot_run: Vec<usize> = Vec::new();
                let mut flush = |boot_run: &mut Vec<usize>, selected: &mut Vec<usize>| {
                    let n = boot_run.len();
                    for (j, k) in boot_run.iter().enumerate() {
                        if j < 2 || j + 2 >= n || j == n / 2 {
                            selected.push(*k);
                        }
                    }
                    boot_run.clear();
                };
                for (k, name) in names.iter().enumerate() {
                    if !focus.is_empty() {
                        // lifecycle history: only the focus windows
                        let op: usize = name.rsplit('@').next().and_then(|o| o.parse().ok()).unwrap_or(usize::MAX);
                        if focus.iter().any(|w| w.contains(&op)) {
                            selected.push(k + 1);
                        }
                        continue;
                    }
                    if name.ends_with("@boot") {
                        if name.starts_with("db.") || name.starts_with("rpc.") {
                            selected.push(k + 1);
                        } else {
                            boot_run.push(k + 1);
                        }
                    } else {
                        flush(&mut boot_run, &mut selected);
                        selected.push(k + 1);
                    }
                }
                flush(&mut boot_run, &mut selected);
                selected.sort();
                selected.dedup();
                if selected.len() > max_points_per_case {
                    let step = selected.len() as f64 / max_points_per_case as f64;
                    let mut k = 0.0;
                    let mut sampled = Vec::new();
                    while (k as usize) < selected.len() {
                        sampled.push(selected[k as usize]);
                        k += step;
                    }
                    selected = sampled;
                }
                r.count("crash_points_selected", selected.len() as u64);
                // a sample of the crash points inside polls that are followed by mining and another poll, with
                // those blocks mined while the tower is down
                let mut md: Vec<usize> = Vec::new();
                for k in &selected {
                    let name = &names[*k - 1];
                    if let Some(op) = name.rsplit('@').next().and_then(|o| o.parse::<usize>().ok()) {
                        if matches!(case.ops.get(op), Some(Op::Poll)) && matches!(case.ops.get(op + 1), Some(Op::Mine { .. })) && (name.starts_with("db.") || name.starts_with("rpc.")) {
                            md.push(*k);
                        }
                    }
                }
                let cap = (max_points_per_case / 3).max(10);
                if md.len() > cap {
                    let step = md.len() as f64 / cap as f64;
                    md = (0..cap).map(|q| md[(q as f64 * step) as usize]).collect();
                }
                r.count("crash_points_selected_with_blocks_mined_while_down", md.len() as u64);
                faults.extend(selected.into_iter().map(Fault::CrashAt));
                faults.extend(md.into_iter().map(Fault::CrashAtMineDown));
                // download failures: every multi-block poll, every block position (bounded)
                let mut pending = 0usize;
                for (i, op) in case.ops.iter().enumerate() {
                    match op {
                        Op::Mine { blocks } => pending += blocks.len(),
                        Op::Reorg { blocks, .. } => pending += blocks.len(),
                        Op::Poll | Op::Restart => {
                            if matches!(op, Op::Poll) && pending >= 2 {
                                for b in 0..pending.min(4) {
                                    faults.push(Fault::DownloadFailure { op: i, block: b, persistent: b % 2 == 1 });
                                }
                            }
                            pending = 0;
                        }
                        _ => {}
                    }
                }
            }
        }
        for f in faults {
            let mut world = world0.fork();
            let fr = run_faulted(&mut world, &cfg, &case.ops, &case.snaps, &f, case.salt);
            let r = rep.p("C03");
            r.eval();
            if fr.hit {
                let pname = fr.crash_point_name.clone().unwrap_or_else(|| "download-failure".into());
                r.count(&format!("fault_at[{pname}]"), 1);
                r.count(&format!("fault_during[{}]", fr.crashed_in.clone().unwrap_or_else(|| "poll+restart".into())), 1);
                r.nontrivial(fnv(format!("{id}:{f:?}").as_bytes()));
                r.count("restarts", fr.restarts);
            } else {
                r.count("faults_not_reached", 1);
            }
            if let Some((sig, detail)) = fr.violation {
                let name = match &f {
                    Fault::CrashAt(k) | Fault::CrashAtMineDown(k) => names.get(k - 1).cloned().unwrap_or_default(),
                    _ => "download failure".into(),
                };
                let replay = json!({"engine":"e1c","seed":seed,"case":id,"fault": match &f { Fault::CrashAt(k) => json!({"crash_at":k}), Fault::CrashAtMineDown(k) => json!({"crash_at_mine_down":k}), Fault::DownloadFailure{op,block,persistent} => json!({"download_failure":[op,block,persistent]}) },
                    "ops": case.ops.iter().map(|o| o.to_json()).collect::<Vec<_>>()});
                r.violation(sig, format!("history {id}, fault {f:?} ({name}; in flight: {:?}): {detail}", fr.crashed_in), replay);
            }
            r.sample(|| json!({"history": id, "fault": format!("{f:?}"), "crash_point": fr.crash_point_name, "in_flight": fr.crashed_in, "steps": case.ops.len()}));
        }
    }
    std::fs::remove_dir_all(&dir).ok();
}
