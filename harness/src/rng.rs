//! Small deterministic PRNG (splitmix64 seeding + xoshiro256**). Every random choice of the
//! harness derives from VERIF_SEED through streams of this generator.

#[derive(Clone, Debug)]
pub struct Rng {
    s: [u64; 4],
}

fn splitmix(x: &mut u64) -> u64 {
    *x = x.wrapping_add(0x9E3779B97F4A7C15);
    let mut z = *x;
    z = (z ^ (z >> 30)).wrapping_mul(0xBF58476D1CE4E5B9);
    z = (z ^ (z >> 27)).wrapping_mul(0x94D049BB133111EB);
    z ^ (z >> 31)
}

impl Rng {
    pub fn new(seed: u64) -> Self {
        let mut x = seed;
        Rng {
            s: [splitmix(&mut x), splitmix(&mut x), splitmix(&mut x), splitmix(&mut x)],
        }
    }

    /// Derives an independent stream.
    pub fn fork(&mut self, tag: u64) -> Rng {
        let a = self.next_u64();
        Rng::new(a ^ tag.wrapping_mul(0xD6E8FEB86659FD93))
    }

    pub fn stream(seed: u64, a: u64, b: u64) -> Rng {
        let mut x = seed ^ a.wrapping_mul(0x9E3779B97F4A7C15) ^ b.wrapping_mul(0xC2B2AE3D27D4EB4F);
        let s = splitmix(&mut x);
        Rng::new(s)
    }

    pub fn next_u64(&mut self) -> u64 {
        let result = self.s[1].wrapping_mul(5).rotate_left(7).wrapping_mul(9);
        let t = self.s[1] << 17;
        self.s[2] ^= self.s[0];
        self.s[3] ^= self.s[1];
        self.s[1] ^= self.s[2];
        self.s[0] ^= self.s[3];
        self.s[2] ^= t;
        self.s[3] = self.s[3].rotate_left(45);
        result
    }

    pub fn next_u32(&mut self) -> u32 {
        (self.next_u64() >> 32) as u32
    }

    /// Uniform in [0, n). n must be > 0.
    pub fn below(&mut self, n: u64) -> u64 {
        debug_assert!(n > 0);
        // multiply-shift; bias is irrelevant for our purposes
        ((self.next_u64() as u128 * n as u128) >> 64) as u64
    }

    pub fn range(&mut self, lo: u64, hi_incl: u64) -> u64 {
        lo + self.below(hi_incl - lo + 1)
    }

    pub fn usize(&mut self, n: usize) -> usize {
        self.below(n as u64) as usize
    }

    pub fn chance(&mut self, num: u64, den: u64) -> bool {
        self.below(den) < num
    }

    pub fn pick<'a, T>(&mut self, xs: &'a [T]) -> &'a T {
        &xs[self.usize(xs.len())]
    }

    pub fn bytes(&mut self, n: usize) -> Vec<u8> {
        let mut v = Vec::with_capacity(n + 8);
        while v.len() < n {
            v.extend_from_slice(&self.next_u64().to_le_bytes());
        }
        v.truncate(n);
        v
    }

    pub fn bytes_pick(&mut self, sizes: &[usize]) -> Vec<u8> {
        let n = sizes[self.usize(sizes.len())];
        self.bytes(n)
    }

    pub fn fill(&mut self, out: &mut [u8]) {
        let b = self.bytes(out.len());
        out.copy_from_slice(&b);
    }

    /// Weighted choice: returns the index.
    pub fn weighted(&mut self, weights: &[u32]) -> usize {
        let total: u64 = weights.iter().map(|w| *w as u64).sum();
        let mut x = self.below(total);
        for (i, w) in weights.iter().enumerate() {
            if x < *w as u64 {
                return i;
            }
            x -= *w as u64;
        }
        weights.len() - 1
    }

    pub fn shuffle<T>(&mut self, xs: &mut [T]) {
        for i in (1..xs.len()).rev() {
            let j = self.usize(i + 1);
            xs.swap(i, j);
        }
    }
}

/// FNV-1a 64-bit, used for case hashes (distinct counting).
pub fn fnv(data: &[u8]) -> u64 {
    let mut h: u64 = 0xcbf29ce484222325;
    for b in data {
        h ^= *b as u64;
        h = h.wrapping_mul(0x100000001b3);
    }
    h
}

pub fn fnv_str(s: &str) -> u64 {
    fnv(s.as_bytes())
}
