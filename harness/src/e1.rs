//! E1 `towersim`: the real tower components in one process against SimChain / SimNode, a seeded
//! workload, and the TowerModel monitors evaluated after every step. One execution feeds the
//! oracles of C01 C02 C04 C06 C07 C08 C09 and the abort monitor of C11.

use crate::chain::lock;
use crate::events::Ev;
use crate::model::{self, viol, Expect, Key, MState, Model, OnGone, Out, Viol};
use crate::panics;
use crate::report::Report;
use crate::rng::{fnv, Rng};
use crate::snap::Snap;
use crate::tower::{self, ApiErr, Session, TowerCfg};
use crate::world::{BlobKind, Op, SigKind, Signer, TxRef, World};
use bitcoin::consensus;
use bitcoin::hashes::Hash;
use serde_json::{json, Value};
use std::collections::{BTreeMap, BTreeSet};
use std::panic::{catch_unwind, AssertUnwindSafe};
use std::path::PathBuf;
use teos_common::receipts::{AppointmentReceipt, RegistrationReceipt};
use teos_common::{TowerId, UserId};
use tonic::Code;

#[derive(Clone, Debug, Default)]
pub struct Profile {
    /// more reorgs / long advances (C04), more signature games (C06), …
    pub bias: String,
    pub max_steps: usize,
}

pub enum Exit {
    Done,
    Restart,
}

pub struct Case {
    pub id: u64,
    pub world: World,
    pub model: Model,
    pub cfg: TowerCfg,
    pub rng: Rng,
    pub ops: Vec<Op>,
    pub steps: usize,
    pub max_steps: usize,
    pub viols: Vec<Viol>,
    pub stopped: bool,
    pub tower_id: Option<TowerId>,
    pub prev_snap: Snap,
    pub bias: String,
    pub salt: u64,
    pub restarts: u64,
    pub pending_blocks: usize,
    /// ops to execute instead of generating (replay / fault re-runs)
    pub script: Option<Vec<Op>>,
    pub tolerated_divergence: bool,
    /// run the liveness probe at the end of the history
    pub probe: bool,
    /// database content after every operation (index-aligned with `ops`), if recording
    pub record_snaps: bool,
    pub snaps: Vec<Snap>,
    /// correct signatures handed out so far (signer, message, signature): material for replays
    pub good_sigs: Vec<(Signer, Vec<u8>, String)>,
    pub replayed_sigs: u64,
}

const SLOTS: &[u32] = &[1, 2, 3, 5, 21, 1000, 0, u32::MAX];
const DURATIONS: &[u32] = &[1, 2, 5, 20, 150, 500, 0];
const GRACES: &[u32] = &[0, 1, 2, 6, 42];

impl Case {
    pub fn new(seed: u64, id: u64, bias: &str, dir: &PathBuf) -> Case {
        if let Some(kind) = bias.strip_prefix("script:") {
            return scripted_case(seed, id, kind, dir);
        }
        Case::new_cfg(seed, id, bias, dir, None)
    }

    /// Like `new`, with the tower configuration (slots, duration, grace) imposed.
    pub fn new_cfg(seed: u64, id: u64, bias: &str, dir: &PathBuf, force: Option<(u32, u32, u32)>) -> Case {
        let mut rng = Rng::stream(seed, id, 0xE1);
        let n_users = 2 + rng.usize(3);
        let n_chans = 4 + rng.usize(7);
        // (crash / outage histories restart the tower after reorgs of up to 8 blocks that may have been handled only in
        // part: they keep clear of the 100-block minimum teosd needs to start)
        let start = if bias == "crash" || bias == "outage" { 112 } else { 100 } + rng.below(8) as u32;
        let world = World::new(&mut rng, n_users, n_chans, start);
        let (s, d, g) = match bias {
            // trackers must live for 100+ blocks
            "chain" => (*rng.pick(&[5u32, 21, 1000]), *rng.pick(&[150u32, 500, 500]), *rng.pick(GRACES)),
            // plenty of slots, so that a crash costing a request's slots cannot cascade into later refusals
            "crash" | "outage" => (1000, *rng.pick(&[20u32, 150, 500, 500]), *rng.pick(GRACES)),
            "expiry" => (*rng.pick(&[0u32, 1, 2, 3, 5, 21, 1000, 0x8000_0000, u32::MAX]), *rng.pick(&[0u32, 1, 2, 5, 20]), *rng.pick(GRACES)),
            _ => (*rng.pick(SLOTS), *rng.pick(DURATIONS), *rng.pick(GRACES)),
        };
        let (s, d, g) = force.unwrap_or((s, d, g));
        let db_path = dir.join(format!("case-{id}.sqlite"));
        let _ = std::fs::remove_file(&db_path);
        let model = Model::new(s, d, g, &lock(&world.chain));
        let max_steps = if bias == "crash" { 12 + rng.usize(28) } else if bias == "outage" { 25 + rng.usize(40) } else { 30 + rng.usize(120) };
        Case {
            id,
            world,
            model,
            cfg: TowerCfg { slots: s, duration: d, grace: g, db_path },
            rng,
            ops: Vec::new(),
            steps: 0,
            max_steps,
            viols: Vec::new(),
            stopped: false,
            tower_id: None,
            prev_snap: Snap::default(),
            bias: bias.to_string(),
            salt: seed ^ id,
            restarts: 0,
            pending_blocks: 0,
            script: None,
            tolerated_divergence: false,
            probe: true,
            record_snaps: false,
            snaps: Vec::new(),
            good_sigs: Vec::new(),
            replayed_sigs: 0,
        }
    }

    fn v(&mut self, v: Viol) {
        if std::env::var("TV_DEBUG").is_ok() {
            eprintln!("VIOLATION {} {}", v.sig, v.detail);
            let evs = self.world.log.since(0);
            let n = evs.len();
            for (i, e) in evs.iter().enumerate().skip(n.saturating_sub(std::env::var("TV_DEBUG").ok().and_then(|v| v.parse().ok()).unwrap_or(80))) {
                match e {
                    Ev::Snap(s) => eprintln!("  ev[{i}] Snap users={} appts={} trackers={:?}", s.users.len(), s.appts.len(), s.trackers.iter().map(|(k, t)| (hex::encode(&k[..4]), t.height, t.confirmed)).collect::<Vec<_>>()),
                    other => eprintln!("  ev[{i}] {other:?}"),
                }
            }
            eprintln!("  model h={} appts={:?}", self.model.h, self.model.appts.iter().map(|(k, a)| (k, a.ver, a.state.clone())).collect::<Vec<_>>());
            for (i, c) in self.world.chans.iter().enumerate() {
                eprintln!("  chan {i}: dispute {}", c.dtxid);
            }
            for (i, v) in self.world.versions.iter().enumerate() {
                eprintln!("  ver {i}: chan {} kind {:?} penalty {:?}", v.chan, v.kind, v.penalty.as_ref().map(|p| p.compute_txid()));
            }
        }
        self.viols.push(v);
        self.stopped = true;
    }

    // ------------------------------------------------------------------------------------------
    // workload generation (from model state only)

    fn pick_sig(&mut self, signer: Signer, msg: &[u8]) -> (String, bool) {
        let bad = if self.bias == "auth" { 45 } else { 12 };
        // replay: a signature this very signer produced for an earlier, *different* request (one of the last few,
        // so that it usually falls between the same two blocks)
        if self.rng.chance(if self.bias == "auth" { 12 } else { 3 }, 100) {
            let n = self.good_sigs.len();
            let cands: Vec<usize> = (n.saturating_sub(6)..n).filter(|i| self.good_sigs[*i].0 == signer && self.good_sigs[*i].1 != msg).collect();
            if !cands.is_empty() {
                let k = *self.rng.pick(&cands);
                self.replayed_sigs += 1;
                return (self.good_sigs[k].2.clone(), false);
            }
        }
        if self.rng.chance(bad, 100) {
            let k = *self.rng.pick(&[SigKind::OtherMessage, SigKind::Truncated, SigKind::CharFlip, SigKind::NotZbase, SigKind::Empty, SigKind::OtherMessage, SigKind::CharFlip]);
            (self.world.sign(&mut self.rng, signer, msg, k), false)
        } else {
            let sig = self.world.sign(&mut self.rng, signer, msg, SigKind::Good);
            self.good_sigs.push((signer, msg.to_vec(), sig.clone()));
            (sig, true)
        }
    }

    fn pick_signer(&mut self) -> Signer {
        if self.rng.chance(if self.bias == "auth" { 15 } else { 4 }, 100) {
            Signer::Outsider
        } else {
            Signer::User(self.rng.usize(self.world.users.len()))
        }
    }

    fn gen_add(&mut self) -> Op {
        let signer = self.pick_signer();
        let n_chans = self.world.chans.len();
        // prefer channels that make sharing / replacement / resubmission happen
        let held: Vec<Key> = self.model.appts.keys().cloned().collect();
        let chan = if !held.is_empty() && self.rng.chance(45, 100) { self.rng.pick(&held).1 } else { self.rng.usize(n_chans) };
        // re-send an existing version (same blob, possibly by another user) or build a new one
        let existing: Vec<usize> = (0..self.world.versions.len()).filter(|i| self.world.versions[*i].chan == chan).collect();
        let ver = if !existing.is_empty() && self.rng.chance(35, 100) {
            *self.rng.pick(&existing)
        } else {
            let kind = match self.rng.below(100) {
                0..=61 => BlobKind::Valid,
                62..=71 => BlobKind::Garbage,
                72..=79 => BlobKind::AuthNotTx,
                80..=85 => BlobKind::TxTrailing,
                86..=93 => BlobKind::OtherChan,
                _ => BlobKind::Empty,
            };
            let target = match self.rng.below(12) {
                0 => 2047,
                1 => 2048,
                2 => 2049,
                3 => 4095,
                4 => 4096,
                5 => 4097,
                6 => 1,
                7 => 2048 * (2 + self.rng.usize(3)) + self.rng.usize(3) - 1,
                _ => 100 + self.rng.usize(600),
            };
            self.world.new_version(&mut self.rng, chan, kind, target)
        };
        self.model.count_kind(self.world.versions[ver].kind);
        let msg = self.world.versions[ver].msg(&self.world.chans);
        let (sig, good) = self.pick_sig(signer, &msg);
        Op::Add { signer, ver, sig, good }
    }

    fn gen_block(&mut self, allow_disputes: bool) -> Vec<TxRef> {
        let confirmed = self.world.confirmed_txids();
        let mut txs: Vec<TxRef> = Vec::new();
        let mut in_block: BTreeSet<bitcoin::Txid> = BTreeSet::new();
        let n_chans = self.world.chans.len();
        if allow_disputes {
            let n = match self.rng.below(10) {
                0..=3 => 0,
                4..=7 => 1,
                8 => 2,
                _ => 3,
            };
            for _ in 0..n {
                // channels with watched appointments first
                let watched: Vec<usize> = self.model.appts.iter().filter(|(_, a)| a.state == MState::Watched).map(|(k, _)| k.1).collect();
                let c = if !watched.is_empty() && self.rng.chance(80, 100) { *self.rng.pick(&watched) } else { self.rng.usize(n_chans) };
                let id = self.world.chans[c].dtxid;
                if !confirmed.contains(&id) && in_block.insert(id) {
                    txs.push(TxRef::Dispute(c));
                }
            }
        }
        // penalties: what sits in the node's mempool, plus (hostile) a penalty nobody gave to the node
        let mempool: Vec<bitcoin::Txid> = lock(&self.world.node.state).mempool.keys().cloned().collect();
        for (i, v) in self.world.versions.iter().enumerate() {
            if let Some(p) = &v.penalty {
                let pid = p.compute_txid();
                let did = self.world.chans[v.chan].dtxid;
                if confirmed.contains(&pid) || in_block.contains(&pid) {
                    continue;
                }
                let dispute_ok = confirmed.contains(&did) || in_block.contains(&did);
                // another spend of the same dispute already mined / in this block?
                let sibling = self.world.versions.iter().any(|o| o.chan == v.chan && o.penalty.as_ref().map(|q| q.compute_txid()).map_or(false, |q| q != pid && (confirmed.contains(&q) || in_block.contains(&q))));
                if !dispute_ok || sibling {
                    continue;
                }
                let in_mempool = mempool.contains(&pid);
                if (in_mempool && self.rng.chance(45, 100)) || (!in_mempool && self.rng.chance(4, 100)) {
                    in_block.insert(pid);
                    txs.push(TxRef::Penalty(i));
                }
            }
        }
        // disputes sitting in the mempool (after a reorg) get re-mined sometimes
        for (c, ch) in self.world.chans.iter().enumerate() {
            if mempool.contains(&ch.dtxid) && !confirmed.contains(&ch.dtxid) && !in_block.contains(&ch.dtxid) && self.rng.chance(50, 100) {
                in_block.insert(ch.dtxid);
                txs.insert(0, TxRef::Dispute(c));
            }
        }
        for _ in 0..self.rng.usize(3) {
            self.world.filler_seq += 1;
            txs.push(TxRef::Filler(self.world.filler_seq));
        }
        // causality: disputes before the penalties that spend them
        txs.sort_by_key(|t| match t {
            TxRef::Dispute(_) => 0,
            TxRef::Filler(_) => 1,
            TxRef::Penalty(_) => 2,
        });
        txs
    }

    fn next_op(&mut self) -> Op {
        if let Some(script) = &self.script {
            return script[self.steps].clone();
        }
        let registered = self.model.users.len();
        // a block was mined but not yet delivered: usually deliver it
        if self.pending_blocks > 0 && (self.bias == "crash" || self.bias == "outage" || self.rng.chance(70, 100)) {
            return Op::Poll;
        }
        let (w_reorg, w_long, w_restart) = match self.bias.as_str() {
            "chain" => (12, 10, 2),
            "expiry" => (6, 3, 1),
            _ => (5, 3, 1),
        };
        let w_register = if registered == 0 { 30 } else if registered < self.world.users.len() { 8 } else { 3 };
        let w_restart = if self.bias == "outage" { 0 } else { w_restart };
        let weights = [w_register, 26, 7, 4, 24, 5, w_reorg, w_long, 3, 1, w_restart, 1];
        match self.rng.weighted(&weights) {
            0 => {
                if self.rng.chance(3, 100) {
                    Op::RegisterBadId { len: *self.rng.pick(&[0usize, 1, 32, 33, 34, 65]) }
                } else {
                    // unregistered users first, then renewals
                    let unreg: Vec<usize> = (0..self.world.users.len()).filter(|i| !self.model.users.contains_key(i)).collect();
                    let user = if !unreg.is_empty() && self.rng.chance(70, 100) { *self.rng.pick(&unreg) } else { self.rng.usize(self.world.users.len()) };
                    Op::Register { user }
                }
            }
            1 => self.gen_add(),
            2 => {
                let signer = self.pick_signer();
                let held: Vec<Key> = self.model.appts.keys().cloned().collect();
                let chan = if !held.is_empty() && self.rng.chance(75, 100) { self.rng.pick(&held).1 } else { self.rng.usize(self.world.chans.len()) };
                let msg = format!("get appointment {}", hex::encode(&self.world.chans[chan].locator));
                let (sig, good) = self.pick_sig(signer, msg.as_bytes());
                Op::GetAppt { signer, chan, sig, good }
            }
            3 => {
                let signer = self.pick_signer();
                let (sig, good) = self.pick_sig(signer, b"get subscription info");
                Op::GetSub { signer, sig, good }
            }
            4 => {
                self.pending_blocks += 1;
                Op::Mine { blocks: vec![self.gen_block(true)] }
            }
            5 => {
                let n = 2 + self.rng.usize(4);
                let mut blocks = Vec::new();
                let salt0 = lock(&self.world.chain).salt;
                for _ in 0..n {
                    // generate sequentially so that causality sees earlier blocks of the batch
                    let b = self.gen_block(true);
                    self.world.mine(&[b.clone()], self.salt);
                    blocks.push(b);
                }
                // undo: the op itself will mine them (keep generation and execution separate)
                {
                    let mut cs = lock(&self.world.chain);
                    for _ in 0..n {
                        cs.active.pop();
                    }
                    cs.salt = salt0;
                }
                self.pending_blocks += n;
                Op::Mine { blocks }
            }
            6 => {
                let h = lock(&self.world.chain).height() as usize;
                let max_depth = if self.bias == "chain" && self.rng.chance(10, 100) { 100 } else { 8 };
                let depth = 1 + self.rng.usize(max_depth.min(h.saturating_sub(2)).max(1));
                let extra = 1 + self.rng.usize(2);
                // generate the replacement branch on a scratch view of the chain
                let salt0 = lock(&self.world.chain).salt;
                let saved: Vec<_> = {
                    let mut cs = lock(&self.world.chain);
                    let n = cs.active.len();
                    cs.active.drain(n - depth..).collect()
                };
                let mut blocks = Vec::new();
                for _ in 0..depth + extra {
                    let b = self.gen_block(true);
                    self.world.mine(&[b.clone()], self.salt);
                    blocks.push(b);
                }
                {
                    let mut cs = lock(&self.world.chain);
                    for _ in 0..depth + extra {
                        cs.active.pop();
                    }
                    cs.active.extend(saved);
                    cs.salt = salt0;
                }
                self.pending_blocks += 1;
                Op::Reorg { depth, blocks }
            }
            7 => {
                let n = *self.rng.pick(&[6usize, 7, 12, 20, 50, 99, 100, 101, 110]);
                self.pending_blocks += n;
                Op::Mine { blocks: (0..n).map(|_| vec![]).collect() }
            }
            8 => {
                // script the node's verdict for a penalty (or a dispute)
                let pens: Vec<usize> = (0..self.world.versions.len()).filter(|i| self.world.versions[*i].penalty.is_some()).collect();
                let tx = if !pens.is_empty() && self.rng.chance(85, 100) { TxRef::Penalty(*self.rng.pick(&pens)) } else { TxRef::Dispute(self.rng.usize(self.world.chans.len())) };
                let script = match self.rng.below(8) {
                    0 => None,
                    1 => Some((-26, false)),
                    2 => Some((-25, false)),
                    3 => Some((-27, false)),
                    4 => Some((-22, false)),
                    5 => Some((-1, false)),
                    6 => Some((0, true)),
                    _ => Some((0, false)),
                };
                Op::Script { tx, script }
            }
            9 => Op::TxIndex { on: self.rng.chance(1, 2) },
            10 => Op::Restart,
            _ => Op::Poll,
        }
    }

    // ------------------------------------------------------------------------------------------
    // execution + monitors

    fn snapshot(&mut self) -> Snap {
        match Snap::read(&self.cfg.db_path) {
            Ok(s) => s,
            Err(e) => {
                self.v(viol(&["C03"], "C03:db-unreadable", format!("cannot read the tower database: {e}")));
                Snap::default()
            }
        }
    }

    /// Memory (private API) == disk (sqlite) after every step.
    fn cross_check(&mut self, s: &Session, snap: &Snap, ctx: &str) {
        let users: BTreeSet<Vec<u8>> = tower::get_users(&s.api).into_iter().collect();
        let disk_users: BTreeSet<Vec<u8>> = snap.users.keys().cloned().collect();
        if users != disk_users {
            self.v(viol(&["C07", "C09"], "C07:users-memory-vs-disk", format!("{ctx}: get_users lists {} users, the users table holds {}", users.len(), disk_users.len())));
            return;
        }
        for (id, row) in &snap.users {
            match tower::get_user(&s.api, id.clone()) {
                None => self.v(viol(&["C07"], "C07:user-memory-vs-disk", format!("{ctx}: user on disk but unknown to get_user"))),
                Some(u) => {
                    if u.available_slots != row.available_slots {
                        self.v(viol(&["C07"], "C07:balance-memory-vs-disk", format!("{ctx}: get_user says (slots {}, expiry {}), the users row says (slots {}, expiry {})", u.available_slots, u.subscription_expiry, row.available_slots, row.expiry)));
                    }
                    if u.subscription_expiry != row.expiry {
                        self.v(viol(&["C09", "C07"], "C09:expiry-memory-vs-disk", format!("{ctx}: get_user says expiry {}, the users row says expiry {}", u.subscription_expiry, row.expiry)));
                    }
                    let mem: BTreeSet<Vec<u8>> = u.appointments.into_iter().collect();
                    let disk: BTreeSet<Vec<u8>> = snap.appts.iter().filter(|(_, a)| a.user_id == *id).map(|(k, _)| k.clone()).collect();
                    if mem != disk {
                        self.v(viol(&["C06", "C07"], "C06:user-appointments-memory-vs-disk", format!("{ctx}: get_user lists {} appointments for a user, the database holds {}", mem.len(), disk.len())));
                    }
                }
            }
        }
        let all = tower::get_all_appointments(&s.api);
        let mut api_w: Vec<(Vec<u8>, Vec<u8>, u32)> = Vec::new();
        let mut api_t: Vec<(Vec<u8>, Vec<u8>)> = Vec::new();
        for a in all {
            match a.appointment_data {
                Some(teos_common::protos::appointment_data::AppointmentData::Appointment(x)) => api_w.push((x.locator, x.encrypted_blob, x.to_self_delay)),
                Some(teos_common::protos::appointment_data::AppointmentData::Tracker(t)) => api_t.push((t.dispute_txid, t.penalty_rawtx)),
                None => {}
            }
        }
        let mut disk_w: Vec<(Vec<u8>, Vec<u8>, u32)> = snap.appts.iter().filter(|(k, _)| !snap.trackers.contains_key(*k)).map(|(_, a)| (a.locator.clone(), a.blob.clone(), a.to_self_delay)).collect();
        let mut disk_t: Vec<(Vec<u8>, Vec<u8>)> = snap
            .trackers
            .values()
            .map(|t| {
                let d: bitcoin::Transaction = consensus::deserialize(&t.dispute_tx).unwrap();
                (d.compute_txid().to_raw_hash().to_byte_array().to_vec(), t.penalty_tx.clone())
            })
            .collect();
        api_w.sort();
        disk_w.sort();
        api_t.sort();
        disk_t.sort();
        if api_w != disk_w || api_t != disk_t {
            self.v(viol(&["C07", "C08"], "C08:appointments-memory-vs-disk", format!("{ctx}: get_all_appointments ({} watched, {} responded) differs from the database ({} / {})", api_w.len(), api_t.len(), disk_w.len(), disk_t.len())));
        }
        let info = tower::get_tower_info(&s.api);
        if info.n_registered_users as usize != snap.users.len() || info.n_watcher_appointments as usize != disk_w.len() || info.n_responder_trackers as usize != disk_t.len() {
            self.v(viol(&["C07"], "C07:tower-info-counts", format!("{ctx}: get_tower_info counts differ from the database")));
        }
        if !info.bitcoind_reachable {
            self.v(viol(&["C12"], "C12:flag-false-without-outage", format!("{ctx}: bitcoind_reachable is false although the node never failed")));
        }
    }

    fn expect_unchanged(&mut self, snap: &Snap, props: &[&'static str], ctx: &str) {
        if !snap.content_eq(&self.prev_snap) {
            // whose business it is depends on what changed as well: balances are C07's, stored appointments C08's,
            // responses C01's
            let mut tags: Vec<&'static str> = props.to_vec();
            let mut what = Vec::new();
            if snap.users != self.prev_snap.users {
                tags.push("C07");
                what.push("users");
            }
            if snap.appts != self.prev_snap.appts {
                tags.push("C08");
                what.push("appointments");
            }
            if snap.trackers != self.prev_snap.trackers {
                tags.push("C01");
                what.push("trackers");
            }
            tags.dedup();
            let mut seen = std::collections::BTreeSet::new();
            tags.retain(|t| seen.insert(*t));
            self.v(viol(&tags, format!("{}:rejected-request-changed-state", props[0]), format!("{ctx}: the request failed but the tower database changed ({})", what.join(", "))));
        }
    }

    fn exec_register(&mut self, s: &mut Session, user: usize) {
        let ctx = format!("step {} register(user {user})", self.steps);
        let id = self.world.users[user].1.serialize().to_vec();
        let reply = tower::register(&s.api, id.clone());
        let snap = self.snapshot();
        let m = &mut self.model;
        let expected: Result<(u32, u32, u32), Code> = match m.users.get(&user) {
            None => Ok((m.s, m.h, m.h.saturating_add(m.d))),
            Some(u) => match u.avail.checked_add(m.s) {
                None => Err(Code::ResourceExhausted),
                Some(a) => Ok((a, u.start, u.expiry.saturating_add(m.d))),
            },
        };
        match (reply, expected) {
            (Ok(r), Ok((slots, start, expiry))) => {
                let renew = m.users.contains_key(&user);
                if r.user_id != id || r.available_slots != slots {
                    self.v(viol(&["C07"], "C07:register-slots", format!("{ctx}: reply grants available_slots {}, expected {slots}", r.available_slots)));
                    return;
                }
                if r.subscription_start != start || r.subscription_expiry != expiry {
                    self.v(viol(&["C09"], format!("C09:register-{}", if renew { "renewal" } else { "new" }), format!("{ctx}: reply says (start {}, expiry {}), expected ({start}, {expiry}) at height {}", r.subscription_start, r.subscription_expiry, self.model.h)));
                    return;
                }
                let receipt = RegistrationReceipt::with_signature(UserId(self.world.users[user].1), r.available_slots, r.subscription_start, r.subscription_expiry, r.subscription_signature.clone());
                if !receipt.verify(&s.tower_id) {
                    self.v(viol(&["C08"], "C08:registration-receipt-invalid", format!("{ctx}: the registration receipt does not verify under the tower id over the returned fields")));
                    return;
                }
                self.model.c.receipts_verified += 1;
                if renew {
                    self.model.c.renewals += 1;
                }
                let granted = self.model.s as u64;
                let e = self.model.users.entry(user).or_insert(model::MUser { avail: 0, start, expiry, granted: 0, forfeited: 0 });
                e.avail = slots;
                e.expiry = expiry;
                e.granted += granted;
            }
            (Err(e), Err(code)) if e.code() == code => {
                self.expect_unchanged(&snap, &["C07"], &ctx);
            }
            (r, e) => {
                self.v(viol(&["C09", "C07"], "C09:register-outcome", format!("{ctx}: reply {:?}, expected {e:?}", r.map(|x| (x.available_slots, x.subscription_start, x.subscription_expiry)))));
                return;
            }
        }
        self.finish_request(s, snap, BTreeMap::new(), &["C06"], &ctx);
    }

    fn finish_request(&mut self, s: &mut Session, snap: Snap, exp: BTreeMap<Key, Expect>, default_props: &[&'static str], ctx: &str) {
        if self.stopped {
            return;
        }
        let mut out = Vec::new();
        self.model.c.isolation_checks += 1;
        let ok = self.model.reconcile(&self.world, &snap, exp, default_props, ctx, &mut out);
        for v in out {
            self.viols.push(v);
        }
        if !ok {
            self.stopped = true;
            return;
        }
        self.cross_check(s, &snap, ctx);
        self.prev_snap = snap;
    }

    fn exec_add(&mut self, s: &mut Session, signer: Signer, ver: usize, sig: String, good: bool) {
        let ctx = format!("step {} add_appointment({signer:?}, version {ver}, good_sig={good})", self.steps);
        let v = self.world.versions[ver].clone();
        let chan = v.chan;
        let log_start = self.world.log.len();
        let reply = tower::add_appointment(&s.api, self.world.chans[chan].locator.clone(), v.blob.clone(), v.tsd, sig.clone());
        let w = self.world.log.since(log_start);
        let epoch = self.world.log.since(self.model.memo_start);
        let snap = self.snapshot();
        let user = self.model.auth(signer, good);
        let h = self.model.h;
        // ---- failures
        let user = match user {
            None => {
                self.model.c.auth_rejections += 1;
                match &reply {
                    Err(e) if e.code() == Code::Unauthenticated => self.expect_unchanged(&snap, &["C06"], &ctx),
                    other => self.v(viol(&["C06"], "C06:add-not-rejected", format!("{ctx}: the signature does not authenticate a registered user over this appointment, yet the reply was {:?}", other.as_ref().map(|r| r.start_block)))),
                }
                self.finish_request(s, snap, BTreeMap::new(), &["C06"], &ctx);
                return;
            }
            Some(u) => u,
        };
        let mu = self.model.users[&user].clone();
        if h >= mu.expiry {
            self.model.c.expiry_errors += 1;
            match &reply {
                Err(e) if e.code() == Code::Unauthenticated && e.msg().contains(&format!("expired at {}", mu.expiry)) => self.expect_unchanged(&snap, &["C09", "C06"], &ctx),
                other => self.v(viol(&["C09"], "C09:add-after-expiry", format!("{ctx}: height {h} >= expiry {}, expected a subscription-expired error stating the expiry, got {:?}", mu.expiry, other.as_ref().map(|r| r.start_block).map_err(|e| e.msg().to_string())))),
            }
            self.finish_request(s, snap, BTreeMap::new(), &["C06"], &ctx);
            return;
        }
        let key = (user, chan);
        let existing = self.model.appts.get(&key).cloned();
        let lifecycle = match &existing {
            None => "absent",
            Some(a) if a.state == MState::Watched => "watched",
            Some(_) => "responded",
        };
        let triggered = self.model.dispute_in_cache(&lock(&self.world.chain), &self.world, chan);
        *self.model.c.resubmissions.entry(format!("{lifecycle}{}", if triggered { "+dispute-in-window" } else { "" })).or_insert(0) += 1;
        if matches!(existing.as_ref().map(|a| &a.state), Some(MState::Responded { .. })) {
            match &reply {
                Err(e) if e.code() == Code::AlreadyExists => self.expect_unchanged(&snap, &["C01"], &ctx),
                other => self.v(viol(&["C01"], "C01:add-on-responded", format!("{ctx}: the appointment is already responded; expected an already-triggered error, got {:?}", other.as_ref().map(|r| r.start_block).map_err(|e| e.msg().to_string())))),
            }
            self.finish_request(s, snap, BTreeMap::new(), &["C06"], &ctx);
            return;
        }
        let old_cost = existing.as_ref().map(|a| self.world.versions[a.ver].cost()).unwrap_or(0);
        let diff = v.cost() as i64 - old_cost as i64;
        if diff > mu.avail as i64 {
            match &reply {
                Err(e) if e.code() == Code::Unauthenticated => self.expect_unchanged(&snap, &["C07"], &ctx),
                other => self.v(viol(&["C07"], "C07:accepted-without-slots", format!("{ctx}: needs {diff} more slots, {} available; expected a refusal, got {:?}", mu.avail, other.as_ref().map(|r| r.available_slots).map_err(|e| e.msg().to_string())))),
            }
            self.finish_request(s, snap, BTreeMap::new(), &["C06"], &ctx);
            return;
        }
        // ---- must be accepted
        let r = match reply {
            Ok(r) => r,
            Err(e) => {
                self.v(viol(&["C07", "C08"], "C08:valid-add-refused", format!("{ctx}: a valid request by a subscribed user with enough slots was refused: {e:?}")));
                return;
            }
        };
        let new_avail = (mu.avail as i64 - diff) as u32;
        if r.available_slots != new_avail {
            self.v(viol(&["C07"], "C07:add-reply-balance", format!("{ctx}: reply says {} slots left, the ledger says {new_avail} (cost {} replacing {old_cost})", r.available_slots, v.cost())));
            return;
        }
        if r.subscription_expiry != mu.expiry {
            self.v(viol(&["C09"], "C09:add-reply-expiry", format!("{ctx}: reply says expiry {}, the subscription expires at {}", r.subscription_expiry, mu.expiry)));
            return;
        }
        if r.locator != self.world.chans[chan].locator || r.start_block != h {
            self.v(viol(&["C08"], "C08:add-reply-start-block", format!("{ctx}: reply (start_block {}) but the tower's height is {h}", r.start_block)));
            return;
        }
        let receipt = AppointmentReceipt::with_signature(sig.clone(), r.start_block, r.signature.clone());
        if !receipt.verify(&s.tower_id) {
            self.v(viol(&["C08"], "C08:appointment-receipt-invalid", format!("{ctx}: the appointment receipt does not verify under the tower id over (user signature, start block)")));
            return;
        }
        self.model.c.receipts_verified += 1;
        self.model.users.get_mut(&user).unwrap().avail = new_avail;
        let base = Expect { allowed: BTreeSet::new(), on_gone: OnGone::Forfeit, props: vec!["C08"], why: String::new(), conf_if_responded: None, ver, start_block: h, user_sig: sig.clone(), no_node_contact: false };
        let mut exp = BTreeMap::new();
        if !triggered {
            exp.insert(key, Expect { allowed: BTreeSet::from([Out::Watched]), why: "accepted, not triggered: must be stored exactly as sent".into(), ..base });
            let mut out = Vec::new();
            self.model.check_sends_pub(&self.world, &w, &BTreeSet::new(), h, &ctx, &mut out);
            for x in out {
                self.v(x);
            }
        } else if existing.is_some() && v.penalty.is_none() {
            // stored without tracker although its dispute is in the look-up window (only reachable after
            // an "already in chain" verdict), re-sent with a blob that does not decrypt: which version
            // is "held" afterwards is not pinned down by the statements. Stop modelling here.
            self.tolerated_divergence = true;
            self.stopped = true;
            return;
        } else {
            if existing.is_some() {
                // same state, decryptable re-send: the new version replaces the stored one and is
                // evaluated like a fresh breach (the difference in slots has been charged)
                if let Some(m) = self.model.appts.get_mut(&key) {
                    m.ver = ver;
                }
            }
            // evaluated exactly like a breach found in a block, before the reply
            let a = model::MAppt { ver, start_block: h, user_sig: sig.clone(), state: MState::Watched };
            let mut out = Vec::new();
            let (allowed, conf, no_node_contact) = self.model.trigger_outcomes_pub(&self.world, &lock(&self.world.chain), key, &a, &w, &epoch, &mut out);
            let mut just = BTreeSet::new();
            if let Some(p) = &v.penalty {
                just.insert(p.compute_txid());
            }
            self.model.check_sends_pub(&self.world, &w, &just, h, &ctx, &mut out);
            for x in out {
                self.v(x);
            }
            exp.insert(key, Expect { allowed, props: vec!["C01"], why: format!("accepted while its dispute is within the six most recent blocks; blob kind {:?}", v.kind), conf_if_responded: conf, no_node_contact, ..base });
        }
        self.finish_request(s, snap, exp, &["C06"], &ctx);
    }

    fn exec_get_appt(&mut self, s: &mut Session, signer: Signer, chan: usize, sig: String, good: bool) {
        let ctx = format!("step {} get_appointment({signer:?}, channel {chan}, good_sig={good})", self.steps);
        let reply = tower::get_appointment(&s.api, self.world.chans[chan].locator.clone(), sig);
        let snap = self.snapshot();
        self.expect_unchanged(&snap, &["C06"], &ctx);
        let h = self.model.h;
        match self.model.auth(signer, good) {
            None => {
                self.model.c.auth_rejections += 1;
                if !matches!(&reply, Err(e) if e.code() == Code::Unauthenticated) {
                    self.v(viol(&["C06"], "C06:get-appointment-not-rejected", format!("{ctx}: unauthenticated request was answered with {:?}", reply.as_ref().map(|r| r.status))));
                }
            }
            Some(u) => {
                let mu = self.model.users[&u].clone();
                if h >= mu.expiry {
                    self.model.c.expiry_errors += 1;
                    if !matches!(&reply, Err(e) if e.code() == Code::Unauthenticated && e.msg().contains(&format!("expired at {}", mu.expiry))) {
                        self.v(viol(&["C09"], "C09:get-after-expiry", format!("{ctx}: height {h} >= expiry {}: expected a subscription-expired error stating the expiry, got {:?}", mu.expiry, reply.as_ref().map(|r| r.status).map_err(|e| e.msg().to_string()))));
                    }
                } else {
                    match (self.model.appts.get(&(u, chan)), &reply) {
                        (None, Err(e)) if e.code() == Code::NotFound => {}
                        (Some(a), Ok(r)) => {
                            self.model.c.readbacks += 1;
                            let v = &self.world.versions[a.ver];
                            use teos_common::protos::appointment_data::AppointmentData as AD;
                            let data = r.appointment_data.clone().and_then(|d| d.appointment_data);
                            match (&a.state, data) {
                                (MState::Watched, Some(AD::Appointment(x))) => {
                                    if r.status != 1 || x.locator != self.world.chans[chan].locator || x.encrypted_blob != v.blob || x.to_self_delay != v.tsd {
                                        self.v(viol(&["C08"], "C08:readback-differs", format!("{ctx}: get_appointment does not return the last accepted version byte-for-byte")));
                                    }
                                }
                                (MState::Responded { .. }, Some(AD::Tracker(t))) => {
                                    let p = v.penalty.as_ref().unwrap();
                                    if r.status != 2 || t.dispute_txid != self.world.chans[chan].dtxid.to_raw_hash().to_byte_array().to_vec() || t.penalty_txid != p.compute_txid().to_raw_hash().to_byte_array().to_vec() || t.penalty_rawtx != consensus::serialize(p) {
                                        self.v(viol(&["C01"], "C01:responded-wrong-data", format!("{ctx}: dispute_responded reply does not carry exactly the dispute and penalty of the appointment")));
                                    }
                                }
                                (st, d) => {
                                    let (props, sig): (&[&'static str], &str) = if matches!(st, MState::Watched) { (&["C02", "C01"], "C02:responded-without-response") } else { (&["C01"], "C01:not-reported-responded") };
                                    self.v(viol(props, sig, format!("{ctx}: model state {st:?}, reply status {} with data {:?}", r.status, d.map(|_| "…"))));
                                }
                            }
                        }
                        (m, r) => {
                            let (props, sig): (&[&'static str], &str) = if m.is_none() { (&["C06"], "C06:get-appointment-foreign-data") } else { (&["C08"], "C08:held-appointment-not-found") };
                            self.v(viol(props, sig, format!("{ctx}: model holds {:?} for this user/locator, reply was {:?}", m.map(|a| &a.state), r.as_ref().map(|x| x.status).map_err(|e| e.msg().to_string()))));
                        }
                    }
                }
            }
        }
        self.finish_request(s, snap, BTreeMap::new(), &["C06"], &ctx);
    }

    fn exec_get_sub(&mut self, s: &mut Session, signer: Signer, sig: String, good: bool) {
        let ctx = format!("step {} get_subscription_info({signer:?}, good_sig={good})", self.steps);
        let reply = tower::get_subscription_info(&s.api, sig);
        let snap = self.snapshot();
        self.expect_unchanged(&snap, &["C06"], &ctx);
        let h = self.model.h;
        match self.model.auth(signer, good) {
            None => {
                self.model.c.auth_rejections += 1;
                if !matches!(&reply, Err(e) if e.code() == Code::Unauthenticated) {
                    self.v(viol(&["C06"], "C06:get-subscription-not-rejected", format!("{ctx}: unauthenticated request was answered")));
                }
            }
            Some(u) => {
                let mu = self.model.users[&u].clone();
                if h >= mu.expiry {
                    self.model.c.expiry_errors += 1;
                    if !matches!(&reply, Err(e) if e.code() == Code::Unauthenticated && e.msg().contains(&format!("expired at {}", mu.expiry))) {
                        self.v(viol(&["C09"], "C09:get-subscription-after-expiry", format!("{ctx}: expected a subscription-expired error stating expiry {}", mu.expiry)));
                    }
                } else {
                    match reply {
                        Ok(r) => {
                            let got: BTreeSet<Vec<u8>> = r.locators.iter().cloned().collect();
                            let want: BTreeSet<Vec<u8>> = self.model.appts.keys().filter(|k| k.0 == u).map(|k| self.world.chans[k.1].locator.clone()).collect();
                            if r.available_slots != mu.avail {
                                self.v(viol(&["C07"], "C07:subscription-info-balance", format!("{ctx}: reply says {} slots, the ledger says {}", r.available_slots, mu.avail)));
                            } else if r.subscription_expiry != mu.expiry {
                                self.v(viol(&["C09"], "C09:subscription-info-expiry", format!("{ctx}: reply says expiry {}, expected {}", r.subscription_expiry, mu.expiry)));
                            } else if got != want || r.locators.len() != want.len() {
                                self.v(viol(&["C06"], "C06:subscription-info-locators", format!("{ctx}: listed {} locators, the user holds {}", r.locators.len(), want.len())));
                            }
                        }
                        Err(e) => self.v(viol(&["C06"], "C06:get-subscription-refused", format!("{ctx}: valid request refused: {e:?}"))),
                    }
                }
            }
        }
        self.finish_request(s, snap, BTreeMap::new(), &["C06"], &ctx);
    }

    fn exec_poll(&mut self, s: &mut Session) {
        let ctx = format!("step {} poll", self.steps);
        let start = self.world.log.len();
        s.poller.poll();
        self.pending_blocks = 0;
        let final_snap = self.snapshot();
        self.process_chain_update(start, final_snap.clone(), &ctx);
        if self.stopped {
            return;
        }
        self.cross_check(s, &final_snap, &ctx);
        self.prev_snap = final_snap;
    }

    /// Splits the event log of a poll (or of the bootstrap) into per-block windows and runs the model.
    pub fn process_chain_update(&mut self, start: usize, final_snap: Snap, ctx: &str) {
        let evs = self.world.log.since(start);
        let chain = lock(&self.world.chain);
        let active = chain.active.clone();
        // what the tower must have been handed
        let mut fork = 0;
        while fork < active.len() && fork < self.model.delivered.len() && active[fork] == self.model.delivered[fork] {
            fork += 1;
        }
        let better = chain.blocks[active.last().unwrap()].chainwork > chain.blocks[self.model.delivered.last().unwrap()].chainwork;
        let (disc, conn): (Vec<_>, Vec<_>) = if better { (self.model.delivered[fork..].iter().rev().cloned().collect(), active[fork..].to_vec()) } else { (vec![], vec![]) };
        // windows
        let mut windows: Vec<(bitcoin::BlockHash, usize, usize)> = Vec::new(); // (hash, from, to) indexes into evs
        let mut snaps_before: Vec<Option<Snap>> = Vec::new();
        let mut last_snap: Option<Snap> = None;
        for (i, e) in evs.iter().enumerate() {
            match e {
                Ev::Snap(sn) => last_snap = Some((**sn).clone()),
                Ev::GetBlock { hash, .. } => {
                    if let Some(w) = windows.last_mut() {
                        w.2 = i;
                    }
                    windows.push((*hash, i + 1, evs.len()));
                    snaps_before.push(last_snap.take());
                }
                _ => {}
            }
        }
        let got: Vec<_> = windows.iter().map(|w| w.0).collect();
        if got != conn {
            let v = viol(&["C01", "C12"], "C01:blocks-not-delivered", format!("{ctx}: the tower downloaded {} blocks, the chain update consists of {} blocks to connect ({} to disconnect)", got.len(), conn.len(), disc.len()));
            drop(chain);
            self.v(v);
            return;
        }
        self.model.c.max_reorg_depth = self.model.c.max_reorg_depth.max(disc.len() as u64);
        for b in &disc {
            self.model.disconnect(&chain, *b);
        }
        let mut out = Vec::new();
        let mut ok = true;
        for (i, (b, from, to)) in windows.iter().enumerate() {
            let w = &evs[*from..*to];
            // after-state of this block: the snapshot taken right before the next download, or the final one
            let after = if i + 1 < windows.len() { snaps_before[i + 1].clone().unwrap_or_else(|| final_snap.clone()) } else { final_snap.clone() };
            let ms = self.model.memo_start;
            let epoch_all = self.world.log.since(ms);
            let epoch = &epoch_all[..start + *to - ms];
            ok = self.model.connect(&self.world, &chain, *b, w, epoch, &after, &mut out);
            self.model.memo_start = start + *to;
            if !ok || !out.is_empty() {
                break;
            }
        }
        if ok && out.is_empty() {
            self.model.check_confirmed_rows(&self.world, &chain, &final_snap, &mut out);
            // persisted last known block = tip delivered
            if !conn.is_empty() && final_snap.last_known_block.as_deref() != Some(&AsRef::<[u8]>::as_ref(active.last().unwrap())[..]) {
                out.push(viol(&["C03"], "C03:last-known-block", format!("{ctx}: the persisted last known block is not the tip that was delivered")));
            }
        }
        drop(chain);
        for v in out {
            self.v(v);
        }
    }

    pub fn exec(&mut self, s: &mut Session, op: &Op) {
        match op.clone() {
            Op::Register { user } => self.exec_register(s, user),
            Op::RegisterBadId { len } => {
                let ctx = format!("step {} register(malformed id, {len} bytes)", self.steps);
                let id = self.rng.bytes(len);
                let r = tower::register(&s.api, id);
                let snap = self.snapshot();
                match r {
                    Err(ApiErr::Status(Code::InvalidArgument, _)) => self.expect_unchanged(&snap, &["C06"], &ctx),
                    // 33 random bytes may by chance be a valid key: tolerate a success only then
                    other => {
                        if len != 33 || other.is_err() {
                            self.v(viol(&["C06", "C15"], "C06:malformed-user-id", format!("{ctx}: expected invalid-argument, got {:?}", other.map(|x| x.available_slots))));
                        } else {
                            self.tolerated_divergence = true;
                            self.stopped = true;
                        }
                    }
                }
                self.prev_snap = snap;
            }
            Op::Add { signer, ver, sig, good } => self.exec_add(s, signer, ver, sig, good),
            Op::GetAppt { signer, chan, sig, good } => self.exec_get_appt(s, signer, chan, sig, good),
            Op::GetSub { signer, sig, good } => self.exec_get_sub(s, signer, sig, good),
            Op::Mine { blocks } => self.world.mine(&blocks, self.salt),
            Op::Reorg { depth, blocks } => self.world.reorg(depth, &blocks, self.salt),
            Op::Poll => self.exec_poll(s),
            Op::Script { tx, script } => {
                let txid = self.world.resolve(&tx, self.salt).compute_txid();
                self.world.set_script(txid, script);
            }
            Op::TxIndex { on } => lock(&self.world.node.state).txindex = on,
            Op::Restart => unreachable!(),
        }
    }

    /// Called at the beginning of every session (first start and restarts).
    pub fn on_session_start(&mut self, s: &mut Session, boot_log_start: usize) {
        match self.tower_id {
            None => self.tower_id = Some(s.tower_id),
            Some(id) if id != s.tower_id => self.v(viol(&["C03"], "C03:tower-id-changed", "the tower id changed across a restart".to_string())),
            _ => {}
        }
        // the first poll of the bootstrap may have delivered a backlog
        let snap = self.snapshot();
        self.process_chain_update(boot_log_start, snap.clone(), &format!("bootstrap #{}", self.restarts));
        self.pending_blocks = 0;
        if !self.stopped {
            self.cross_check(s, &snap, "after bootstrap");
        }
        self.prev_snap = snap;
    }

    pub fn drive(&mut self, s: &mut Session, boot_log_start: usize) -> Exit {
        self.on_session_start(s, boot_log_start);
        while !self.stopped && self.steps < self.max_steps {
            let op = self.next_op();
            if self.script.is_none() {
                self.ops.push(op.clone());
            }
            self.steps += 1;
            if let Op::Restart = op {
                if self.record_snaps {
                    self.snaps.push(self.prev_snap.clone());
                }
                return Exit::Restart;
            }
            crate::events::CUR_OP.store(self.steps - 1, std::sync::atomic::Ordering::SeqCst);
            self.exec(s, &op);
            crate::events::CUR_OP.store(usize::MAX, std::sync::atomic::Ordering::SeqCst);
            if self.record_snaps {
                self.snaps.push(self.prev_snap.clone());
            }
        }
        if !self.stopped && self.probe {
            // liveness probe (C11): the tower still answers a request and processes a block
            self.world.mine(&[vec![]], self.salt);
            self.exec_poll(s);
            if !self.stopped {
                let u = self.rng.usize(self.world.users.len());
                self.exec_register(s, u);
            }
        }
        Exit::Done
    }

    pub fn replay_json(&self, engine: &str, seed: u64) -> Value {
        json!({"engine": engine, "seed": seed, "case": self.id, "bias": self.bias, "config": {"slots": self.cfg.slots, "duration": self.cfg.duration, "grace": self.cfg.grace},
               "ops": self.ops.iter().map(|o| o.to_json()).collect::<Vec<_>>()})
    }
}


/// Directed histories for transitions the random generator reaches rarely: a breach mined in the very
/// block that purges its owner, an appointment arriving for a dispute that sits at the edge of the
/// six-block window (with a restart in between: the window is rebuilt by the bootstrap), blocks mined
/// while the tower is down (backlog delivered by the bootstrap's own poll), a restart before the first
/// block was ever processed. They run under the same model and monitors as generated histories.
pub const SCRIPT_KINDS: &[&str] = &["purge-block-dispute", "late-appointment", "backlog-at-bootstrap", "fresh-restart-backlog"];

pub fn scripted_case(seed: u64, id: u64, kind: &str, dir: &PathBuf) -> Case {
    use crate::world::SigKind;
    let mut rng = Rng::stream(seed, id, 0x5C);
    let grace = *rng.pick(&[0u32, 1, 2]);
    let duration = if kind == "purge-block-dispute" { 2 + rng.below(5) as u32 } else { *rng.pick(&[20u32, 150, 500]) };
    let bias = format!("script:{kind}");
    let mut case = Case::new_cfg(seed, id, &bias, dir, Some((*rng.pick(&[21u32, 1000]), duration, grace)));
    let mut ops: Vec<Op> = Vec::new();
    let n_users = case.world.users.len().min(2);
    let add = |case: &mut Case, rng: &mut Rng, ops: &mut Vec<Op>, chan: usize, user: usize| {
        let target = 100 + rng.usize(300);
        let ver = case.world.new_version(rng, chan, BlobKind::Valid, target);
        let msg = case.world.versions[ver].msg(&case.world.chans);
        let sig = case.world.sign(rng, Signer::User(user), &msg, SigKind::Good);
        ops.push(Op::Add { signer: Signer::User(user), ver, sig, good: true });
    };
    let get = |case: &mut Case, rng: &mut Rng, ops: &mut Vec<Op>, chan: usize, user: usize| {
        let msg = format!("get appointment {}", hex::encode(&case.world.chans[chan].locator));
        let sig = case.world.sign(rng, Signer::User(user), msg.as_bytes(), SigKind::Good);
        ops.push(Op::GetAppt { signer: Signer::User(user), chan, sig, good: true });
    };
    match kind {
        "purge-block-dispute" => {
            ops.push(Op::Register { user: 0 });
            if n_users > 1 && rng.chance(1, 2) {
                ops.push(Op::Register { user: 1 });
            }
            for c in 0..4 {
                add(&mut case, &mut rng, &mut ops, c, 0);
            }
            if rng.chance(1, 2) {
                ops.push(Op::Restart);
            }
            // one breach per block around the purge height (expiry + grace)
            let around = (duration + grace) as i64;
            for off in 1..=(around + 3) {
                let chan = match off - around {
                    -1 => Some(0),
                    0 => Some(1),
                    1 => Some(2),
                    2 => Some(3),
                    _ => None,
                };
                ops.push(Op::Mine { blocks: vec![chan.map(|c| vec![TxRef::Dispute(c)]).unwrap_or_default()] });
                ops.push(Op::Poll);
            }
            for c in 0..4 {
                get(&mut case, &mut rng, &mut ops, c, 0);
            }
        }
        "late-appointment" => {
            ops.push(Op::Register { user: 0 });
            ops.push(Op::Mine { blocks: vec![vec![TxRef::Dispute(0)]] });
            ops.push(Op::Poll);
            let k = rng.usize(8);
            if k > 0 {
                if rng.chance(1, 2) {
                    ops.push(Op::Mine { blocks: (0..k).map(|_| vec![]).collect() });
                    ops.push(Op::Poll);
                } else {
                    for _ in 0..k {
                        ops.push(Op::Mine { blocks: vec![vec![]] });
                        ops.push(Op::Poll);
                    }
                }
            }
            if rng.chance(2, 3) {
                ops.push(Op::Restart);
            }
            add(&mut case, &mut rng, &mut ops, 0, 0);
            get(&mut case, &mut rng, &mut ops, 0, 0);
            ops.push(Op::Mine { blocks: vec![vec![]] });
            ops.push(Op::Poll);
            get(&mut case, &mut rng, &mut ops, 0, 0);
        }
        "backlog-at-bootstrap" => {
            ops.push(Op::Register { user: 0 });
            add(&mut case, &mut rng, &mut ops, 0, 0);
            add(&mut case, &mut rng, &mut ops, 1, 0);
            add(&mut case, &mut rng, &mut ops, 2, 0);
            ops.push(Op::Mine { blocks: vec![vec![]] });
            ops.push(Op::Poll);
            // mined while the tower is not looking, then the tower goes down and comes back
            ops.push(Op::Mine { blocks: vec![vec![TxRef::Dispute(0)]] });
            let k = rng.usize(9);
            ops.push(Op::Mine { blocks: (0..k).map(|_| vec![]).chain(std::iter::once(vec![TxRef::Dispute(1)])).collect() });
            ops.push(Op::Restart);
            get(&mut case, &mut rng, &mut ops, 0, 0);
            get(&mut case, &mut rng, &mut ops, 1, 0);
            get(&mut case, &mut rng, &mut ops, 2, 0);
            ops.push(Op::Mine { blocks: vec![vec![TxRef::Dispute(2)]] });
            ops.push(Op::Poll);
            get(&mut case, &mut rng, &mut ops, 2, 0);
        }
        _ => {
            // fresh-restart-backlog: the tower never processed a block before it goes down
            ops.push(Op::Register { user: 0 });
            add(&mut case, &mut rng, &mut ops, 0, 0);
            if rng.chance(1, 2) {
                add(&mut case, &mut rng, &mut ops, 1, 0);
            }
            let k = rng.usize(4);
            ops.push(Op::Mine { blocks: std::iter::once(vec![TxRef::Dispute(0)]).chain((0..k).map(|_| vec![])).collect() });
            ops.push(Op::Restart);
            get(&mut case, &mut rng, &mut ops, 0, 0);
            ops.push(Op::Mine { blocks: vec![vec![]] });
            ops.push(Op::Poll);
            get(&mut case, &mut rng, &mut ops, 0, 0);
        }
    }
    case.max_steps = ops.len();
    case.ops = ops.clone();
    case.script = Some(ops);
    case
}

/// Runs one case to completion (restarts included). Panics of tower code are caught and reported.
pub fn run_case(case: &mut Case) {
    let chain = {
        let mut c = case.world.simchain();
        c.snap_path = Some(case.cfg.db_path.clone());
        c
    };
    let node = case.world.node.clone();
    loop {
        let cfg = case.cfg.clone();
        let boot_log_start = case.world.log.len();
        case.model.on_restart(boot_log_start);
        let res = catch_unwind(AssertUnwindSafe(|| tower::run_session(&chain, &node, &cfg, |s| { let fp = s.first_poll_log_idx; case.drive(s, fp) })));
        match res {
            Ok(Ok(Exit::Done)) => break,
            Ok(Ok(Exit::Restart)) => {
                case.restarts += 1;
                continue;
            }
            Ok(Err(e)) => {
                case.viols.push(viol(&["C03"], "C03:restart-failed", format!("the tower failed to (re)start: {e:?}")));
                break;
            }
            Err(_) => {
                let recs = panics::take();
                let rec = recs.last().cloned();
                let (f, m, loc) = rec.map(|r| (r.function, r.message, r.location)).unwrap_or(("?".into(), "?".into(), "?".into()));
                let op = case.ops.last().map(|o| format!("{o:?}")).unwrap_or_default();
                let in_harness = !(loc.contains("/repo/") || loc.contains("teos")) && f == "?";
                if in_harness {
                    case.viols.push(viol(&["HARNESS"], "HARNESS:panic", format!("harness panic at {loc}: {m}")));
                } else {
                    case.viols.push(viol(&["C11"], format!("C11:panic:fn={f}:msg={}", panics::message_class(&m)), format!("tower code panicked at {loc} in {f}: {m}; during step {} {op}", case.steps)));
                }
                break;
            }
        }
    }
    let _ = std::fs::remove_file(&case.cfg.db_path);
}


/// Books one finished case into the report: evaluations, per-property non-triviality, the model's
/// counters, violations with their replay document, samples. Shared by `e1` and `e3`.
pub fn report_case(rep: &mut Report, case: &Case, id: u64, seed: u64, engine: &str) {
    let props = ["C01", "C02", "C04", "C06", "C07", "C08", "C09", "C11"];
    let h = fnv(format!("{:?}", case.ops).as_bytes());
    let c = case.model.c.clone();
    let nontrivial: BTreeMap<&str, bool> = BTreeMap::from([
        ("C01", c.obligations > 0),
        ("C02", c.sends_seen > 0),
        ("C04", c.reannounce_checked + c.completions + c.rebroadcast_windows_checked + c.confirmed_rows_checked > 0),
        ("C06", c.auth_rejections > 0 && c.isolation_checks > 0),
        ("C07", c.ledger_checks > 0 && c.receipts_verified > 1),
        ("C08", c.receipts_verified > 0),
        ("C09", c.expiry_errors + c.purges + c.renewals > 0),
        ("C11", !c.resubmissions.is_empty()),
    ]);
    for p in props {
        let r = rep.p(p);
        r.eval();
        if nontrivial[p] {
            r.nontrivial(h);
        }
        if case.tolerated_divergence {
            r.count("cases_stopped_at_unspecified_state", 1);
        }
        r.count("steps", case.steps as u64);
        r.count("restarts", case.restarts);
    }
    {
        let r = rep.p("C01");
        r.count("obligations", c.obligations);
        r.count("discharged_responded", c.discharged_responded);
        r.count("discharged_dropped_invalid", c.discharged_dropped_invalid);
        r.count("discharged_dropped_rejected", c.discharged_dropped_rejected);
        r.count("tolerated_already_in_chain", c.tolerant_27);
        r.count("blocks_connected", c.blocks_connected);
        for (k, v) in &c.blob_kinds {
            r.count(&format!("blob[{k}]"), *v);
        }
        for (k, v) in &c.verdicts {
            r.count(&format!("verdict[{k}]"), *v);
        }
    }
    {
        let r = rep.p("C02");
        r.count("broadcasts_seen", c.sends_seen);
        r.count("broadcasts_justified", c.rpcs_justified);
    }
    {
        let r = rep.p("C04");
        r.count("reannouncements_checked", c.reannounce_checked);
        r.count("unconfirmed_tracker_blocks_checked", c.rebroadcast_windows_checked);
        r.count("confirmed_rows_checked", c.confirmed_rows_checked);
        r.count("completions_at_100", c.completions);
        r.count("blocks_connected", c.blocks_connected);
        r.count("blocks_disconnected", c.blocks_disconnected);
        r.max("max_reorg_depth", c.max_reorg_depth);
    }
    {
        let r = rep.p("C06");
        r.count("requests_rejected_for_authentication", c.auth_rejections);
        r.count("isolation_checks", c.isolation_checks);
    }
    {
        let r = rep.p("C07");
        r.count("ledger_checks", c.ledger_checks);
        r.count("completions_refunded", c.completions);
    }
    {
        let r = rep.p("C08");
        r.count("receipts_verified", c.receipts_verified);
        r.count("readbacks_compared", c.readbacks);
    }
    {
        let r = rep.p("C09");
        r.count("expiry_errors_checked", c.expiry_errors);
        r.count("purges", c.purges);
        r.count("renewals", c.renewals);
    }
    {
        let r = rep.p("C11");
        for (k, v) in &c.resubmissions {
            r.count(&format!("submission_in_state[{k}]"), *v);
        }
    }
    let replay = case.replay_json(engine, seed);
    for v in &case.viols {
        for p in &v.props {
            if *p == "HARNESS" {
                rep.p("C01").inconclusive += 1;
                rep.p("C01").note(format!("harness error in case {id}: {}", v.detail));
                eprintln!("HARNESS ERROR case {id}: {}", v.detail);
                continue;
            }
            rep.p(p).violation(v.sig.clone(), format!("{engine} case {id}: {}", v.detail), replay.clone());
        }
    }
    for p in props {
        let ops_sample: Vec<String> = case.ops.iter().take(40).map(|o| format!("{o:?}").chars().take(160).collect()).collect();
        rep.p(p).sample(|| json!({"case": id, "config": {"slots": case.cfg.slots, "duration": case.cfg.duration, "grace": case.cfg.grace}, "steps": case.steps, "first_ops": ops_sample}));
    }
}

/// Entry point of the `e1` engine.
pub fn run(seed: u64, shard: u64, nshards: u64, cases: u64, bias: &str, only_case: Option<u64>, rep: &mut Report) {
    panics::install();
    let dir = PathBuf::from(format!("/dev/shm/tv-e1-{}", std::process::id()));
    std::fs::create_dir_all(&dir).unwrap();
    let ids: Vec<u64> = match only_case {
        Some(c) => vec![c],
        None => (0..cases).map(|i| shard + i * nshards).collect(),
    };
    for id in ids {
        // one history in sixteen is a directed one (see `scripted_case`); replays carry the bias string
        let scripted = only_case.is_none() && !bias.starts_with("script:") && id % 16 == 5;
        let b = if scripted { format!("script:{}", SCRIPT_KINDS[((id / 16) % SCRIPT_KINDS.len() as u64) as usize]) } else { bias.to_string() };
        let mut case = Case::new(seed, id, &b, &dir);
        run_case(&mut case);
        report_case(rep, &case, id, seed, "e1");
    }
    std::fs::remove_dir_all(&dir).ok();
}
