//! E5 `wire`: the real warp router (`teos::api::http::serve`, real TCP on loopback) in front of
//!  (a) the real InternalAPI over an E1 tower — C15: every HTTP request gets a documented answer and
//!      bad ones change nothing (raw-socket client, structured mutations of valid requests);
//!  (b) a recording / scripted `PublicTowerServices` stub — C16: what the plugin's real request code
//!      emits is parsed by the tower into the same fields, and what the tower emits is parsed by the
//!      plugin's real response code into the same values.

use crate::gen;
use crate::panics;
use crate::report::Report;
use crate::rng::{fnv, Rng};
use crate::snap::Snap;
use crate::tower::{self, TowerCfg};
use crate::world::World;
use serde_json::{json, Map, Value};
use std::collections::VecDeque;
use std::io::{Read, Write};
use std::net::{SocketAddr, TcpStream};
use std::path::PathBuf;
use std::sync::{Arc, Mutex};
use std::time::Duration;
use teos::protos::public_tower_services_server::{PublicTowerServices, PublicTowerServicesServer};
use teos_common::cryptography;
use teos_common::net::http::Endpoint;
use teos_common::net::NetAddr;
use teos_common::protos as msgs;
use teos_common::receipts::{AppointmentReceipt, RegistrationReceipt};
use teos_common::{TowerId, UserId};
use tonic::{Request, Response, Status};
use watchtower_plugin::net::http as client;

fn free_port() -> u16 {
    std::net::TcpListener::bind("127.0.0.1:0").unwrap().local_addr().unwrap().port()
}

/// Starts the gRPC service and the real HTTP front-end; returns the HTTP address and a shutdown trigger.
async fn start<S: PublicTowerServices>(svc: S) -> Result<(SocketAddr, triggered::Trigger), String> {
    let listener = tokio::net::TcpListener::bind("127.0.0.1:0").await.map_err(|e| e.to_string())?;
    let grpc_addr = listener.local_addr().unwrap();
    let (shutdown, signal) = triggered::trigger();
    let sig2 = signal.clone();
    tokio::spawn(async move {
        let _ = tonic::transport::Server::builder()
            .add_service(PublicTowerServicesServer::new(svc))
            .serve_with_incoming_shutdown(tokio_stream::wrappers::TcpListenerStream::new(listener), sig2)
            .await;
    });
    for _ in 0..20 {
        let http_addr: SocketAddr = format!("127.0.0.1:{}", free_port()).parse().unwrap();
        let (ready, ready_signal) = triggered::trigger();
        let h = tokio::spawn(teos::api::http::serve(http_addr, grpc_addr, ready, signal.clone()));
        tokio::select! {
            _ = ready_signal => return Ok((http_addr, shutdown)),
            _ = tokio::time::sleep(Duration::from_secs(5)) => { h.abort(); }
        }
    }
    Err("could not start the HTTP API".into())
}

pub struct HttpReply {
    pub status: u16,
    pub body: Vec<u8>,
}

/// One HTTP/1.1 request over a fresh connection; every request carries a correct Content-Length.
pub fn raw_request(addr: SocketAddr, method: &str, path: &str, content_type: Option<&str>, body: &[u8], timeout: Duration) -> Result<HttpReply, String> {
    let mut s = TcpStream::connect_timeout(&addr, timeout).map_err(|e| format!("connect: {e}"))?;
    s.set_read_timeout(Some(timeout)).ok();
    s.set_write_timeout(Some(timeout)).ok();
    let mut head = format!("{method} {path} HTTP/1.1\r\nHost: {addr}\r\nConnection: close\r\nContent-Length: {}\r\n", body.len());
    if let Some(ct) = content_type {
        head.push_str(&format!("Content-Type: {ct}\r\n"));
    }
    head.push_str("\r\n");
    s.write_all(head.as_bytes()).map_err(|e| format!("write: {e}"))?;
    // the server may answer (e.g. 413) and close before the body is fully written
    let _ = s.write_all(body);
    let mut buf = Vec::new();
    match s.read_to_end(&mut buf) {
        Ok(_) => {}
        Err(e) if !buf.is_empty() => {
            let _ = e;
        }
        Err(e) => return Err(format!("read: {e}")),
    }
    let text = String::from_utf8_lossy(&buf);
    let status: u16 = text.split_whitespace().nth(1).and_then(|c| c.parse().ok()).ok_or_else(|| format!("no status line in {:?}", &text[..text.len().min(80)]))?;
    let body_start = buf.windows(4).position(|w| w == b"\r\n\r\n").map(|p| p + 4).unwrap_or(buf.len());
    let mut body = buf[body_start..].to_vec();
    // de-chunk if needed
    if text[..body_start.min(text.len())].to_ascii_lowercase().contains("transfer-encoding: chunked") {
        let mut out = Vec::new();
        let mut rest = &body[..];
        loop {
            let nl = match rest.windows(2).position(|w| w == b"\r\n") {
                Some(p) => p,
                None => break,
            };
            let n = usize::from_str_radix(String::from_utf8_lossy(&rest[..nl]).trim(), 16).unwrap_or(0);
            if n == 0 || rest.len() < nl + 2 + n {
                break;
            }
            out.extend_from_slice(&rest[nl + 2..nl + 2 + n]);
            rest = &rest[(nl + 2 + n + 2).min(rest.len())..];
        }
        body = out;
    }
    Ok(HttpReply { status, body })
}

const DOCUMENTED_CODES: &[u64] = &[1, 2, 3, 4, 5, 6, 7, 32, 33, 34, 35, 36, 65];

#[derive(Clone, Copy, Debug, PartialEq, Eq)]
enum Expectation {
    MustSucceed,
    MustFail,
    Either,
}

struct Req {
    endpoint: &'static str,
    method: &'static str,
    body: Vec<u8>,
    content_type: Option<&'static str>,
    expect: Expectation,
    what: String,
}

const LIMITS: &[(&str, usize)] = &[("register", 87), ("add_appointment", 2048), ("get_appointment", 178), ("get_subscription_info", 127)];

fn mutate_json(rng: &mut Rng, v: &Value, what: &mut String) -> Value {
    let mut obj = v.as_object().cloned().unwrap_or_default();
    let keys: Vec<String> = obj.keys().cloned().collect();
    let pick_key = |rng: &mut Rng| keys[rng.usize(keys.len())].clone();
    *what = "unchanged".into();
    // a long string of multi-byte characters, at a random byte alignment: what ends up quoted in a parser's
    // error message (and cut, escaped or measured there) is under the sender's control
    let wide = |rng: &mut Rng| -> String {
        let unit = *rng.pick(&["é", "€", "😀", "ß∂", "漢字"]);
        let mut s = "x".repeat(rng.usize(4));
        let target = 20 + rng.usize(220);
        while s.len() < target {
            s.push_str(unit);
        }
        s
    };
    match rng.below(17) {
        14 if !keys.is_empty() => {
            // a numeric / object field holding a long non-ASCII string (wrong type), or a string field holding one
            let k = if obj.contains_key("appointment") && rng.chance(1, 2) { "appointment".to_string() } else { pick_key(rng) };
            let w = wide(rng);
            if k == "appointment" && rng.chance(1, 2) {
                let mut a = obj["appointment"].as_object().cloned().unwrap_or_default();
                a.insert("to_self_delay".into(), json!(w));
                obj.insert(k, Value::Object(a));
                *what = "appointment.to_self_delay = long non-ascii string".into();
            } else {
                *what = format!("field {k} = long non-ascii string");
                obj.insert(k, json!(w));
            }
        }
        15 => {
            *what = "json string (long, non-ascii) instead of object".into();
            return json!(wide(rng));
        }
        16 => {
            *what = "unknown field holding a long non-ascii string".into();
            obj.insert(wide(rng), json!(wide(rng)));
        }
        0 if !keys.is_empty() => {
            let k = pick_key(rng);
            obj.remove(&k);
            *what = format!("drop field {k}");
        }
        1 if !keys.is_empty() => {
            let k = pick_key(rng);
            let nv = match rng.below(6) {
                0 => json!(null),
                1 => json!(rng.next_u32()),
                2 => json!(true),
                3 => json!([1, 2, 3]),
                4 => json!({"a": 1}),
                _ => json!(-1),
            };
            *what = format!("retype field {k} -> {nv}");
            obj.insert(k, nv);
        }
        2 if !keys.is_empty() => {
            let k = pick_key(rng);
            *what = format!("empty field {k}");
            obj.insert(k, json!(""));
        }
        3 if !keys.is_empty() => {
            // resize a string field
            let k = pick_key(rng);
            if let Some(s) = obj.get(&k).and_then(|x| x.as_str()).map(|s| s.to_string()) {
                let ns = match rng.below(4) {
                    0 => s[..s.len().saturating_sub(2)].to_string(),
                    1 => format!("{s}00"),
                    2 => s[..s.len().saturating_sub(1)].to_string(),
                    _ => format!("{s}{}", "ab".repeat(1 + rng.usize(40))),
                };
                *what = format!("resize field {k} {} -> {}", s.len(), ns.len());
                obj.insert(k, json!(ns));
            }
        }
        4 if !keys.is_empty() => {
            let k = pick_key(rng);
            if let Some(s) = obj.get(&k).and_then(|x| x.as_str()).map(|s| s.to_string()) {
                if !s.is_empty() {
                    let mut b = s.into_bytes();
                    let i = rng.usize(b.len());
                    b[i] = *rng.pick(b"lvLV!~ \"");
                    *what = format!("non-hex character in field {k}");
                    obj.insert(k, json!(String::from_utf8_lossy(&b).to_string()));
                }
            }
        }
        5 => {
            *what = "extra unknown field".into();
            obj.insert("extra".into(), json!("x"));
        }
        6 if obj.contains_key("appointment") => {
            let mut a = obj["appointment"].as_object().cloned().unwrap_or_default();
            let ks: Vec<String> = a.keys().cloned().collect();
            let k = ks[rng.usize(ks.len())].clone();
            match rng.below(8) {
                5 | 6 | 7 => {
                    // a hex sub-field one byte longer / one byte shorter / of odd length
                    let k = if rng.chance(2, 3) { "locator".to_string() } else { "encrypted_blob".to_string() };
                    if let Some(sv) = a.get(&k).and_then(|x| x.as_str()).map(|x| x.to_string()) {
                        let ns = match rng.below(3) {
                            0 => format!("{sv}ab"),
                            1 => sv[..sv.len().saturating_sub(2)].to_string(),
                            _ => format!("{sv}a"),
                        };
                        *what = format!("resize appointment.{k} {} -> {}", sv.len(), ns.len());
                        a.insert(k, json!(ns));
                    }
                }
                0 => {
                    a.remove(&k);
                    *what = format!("drop appointment.{k}");
                }
                1 => {
                    a.insert(k.clone(), json!(""));
                    *what = format!("empty appointment.{k}");
                }
                2 => {
                    a.insert(k.clone(), json!(rng.next_u64()));
                    *what = format!("retype appointment.{k} to a big number");
                }
                3 => {
                    a.insert(k.clone(), json!(-5));
                    *what = format!("appointment.{k} = -5");
                }
                _ => {
                    a.insert(k.clone(), json!("0g"));
                    *what = format!("appointment.{k} = non-hex");
                }
            }
            obj.insert("appointment".into(), Value::Object(a));
        }
        7 => {
            *what = "deeply nested json".into();
            let mut v = json!(1);
            for _ in 0..(5 + rng.usize(60)) {
                v = json!([v]);
            }
            return v;
        }
        8 => {
            *what = "json array instead of object".into();
            return json!([obj]);
        }
        9 => {
            *what = "json string instead of object".into();
            return json!("register");
        }
        10 => {
            *what = "json number".into();
            return json!(rng.next_u64());
        }
        11 => {
            *what = "empty object".into();
            return json!({});
        }
        12 if obj.contains_key("appointment") => {
            *what = "appointment = null".into();
            obj.insert("appointment".into(), json!(null));
        }
        _ => {}
    }
    Value::Object(obj)
}

fn gen_request(rng: &mut Rng, world: &World, registered: &[usize]) -> Req {
    let ep_i = rng.usize(4);
    let (endpoint, limit) = LIMITS[ep_i];
    let user = if registered.is_empty() { 0 } else { registered[rng.usize(registered.len())] };
    let (sk, pk) = world.users[user];
    // ---- a valid request for this endpoint
    let mut valid: Value = match endpoint {
        "register" => {
            let u = rng.usize(world.users.len());
            json!({"user_id": hex::encode(world.users[u].1.serialize())})
        }
        "add_appointment" => {
            let blob = rng.bytes_pick(&[0usize, 1, 16, 100, 300, 700]);
            let loc = rng.bytes(16);
            let tsd = *rng.pick(&[0u32, 1, 20, u32::MAX]);
            let mut m = loc.clone();
            m.extend(&blob);
            m.extend(tsd.to_be_bytes());
            json!({"appointment": {"locator": hex::encode(&loc), "encrypted_blob": hex::encode(&blob), "to_self_delay": tsd}, "signature": cryptography::sign(&m, &sk)})
        }
        "get_appointment" => {
            let loc = rng.bytes(16);
            let msg = format!("get appointment {}", hex::encode(&loc));
            json!({"locator": hex::encode(&loc), "signature": cryptography::sign(msg.as_bytes(), &sk)})
        }
        _ => json!({"signature": cryptography::sign(b"get subscription info", &sk)}),
    };
    let _ = pk;
    let kind = rng.below(100);
    let mut what = String::from("valid");
    let mut method = "POST";
    let mut content_type = Some("application/json");
    let mut path_ep = endpoint;
    let mut expect = Expectation::Either;
    let body: Vec<u8>;
    if kind < 22 {
        // well-formed request: 200 or one of the *semantic* errors (not registered, not found, no slots)
        body = serde_json::to_vec(&valid).unwrap();
        expect = if endpoint == "register" { Expectation::MustSucceed } else { Expectation::Either };
    } else if kind < 70 {
        let original = valid.clone();
        valid = mutate_json(rng, &valid, &mut what);
        body = serde_json::to_vec(&valid).unwrap();
        expect = if what == "unchanged" || what == "extra unknown field" || what == "unknown field holding a long non-ascii string" || valid == original { Expectation::Either } else { Expectation::MustFail };
        // a resized register user id may by luck still be... no: length is checked. Resizing a signature keeps the request
        // syntactically valid (authentication fails) — still a failure.
    } else if kind < 78 {
        // raw bytes
        let n = *rng.pick(&[0usize, 1, 7, 50, 86, 87, 88, 126, 127, 128, 177, 178, 179, 500]);
        body = if rng.chance(1, 2) { rng.bytes(n) } else { "{".repeat(n).into_bytes() };
        what = format!("raw bytes ({n})");
        expect = Expectation::MustFail;
    } else if kind < 86 {
        // body at the size limit +-1 (padding with whitespace keeps the JSON valid)
        let mut b = serde_json::to_vec(&valid).unwrap();
        let target = (limit as i64 + rng.range(0, 2) as i64 - 1) as usize;
        while b.len() < target {
            b.push(b' ');
        }
        what = format!("padded to {} bytes (limit {limit})", b.len());
        expect = if b.len() > limit { Expectation::MustFail } else { Expectation::Either };
        body = b;
    } else if kind < 91 {
        // oversized
        let n = limit + 1 + rng.usize(6000);
        body = vec![b' '; n];
        what = format!("oversized body ({n})");
        expect = Expectation::MustFail;
    } else if kind < 96 {
        method = *rng.pick(&["GET", "PUT", "DELETE", "PATCH", "HEAD", "OPTIONS"]);
        body = serde_json::to_vec(&valid).unwrap();
        what = format!("method {method}");
        expect = Expectation::MustFail;
    } else if kind < 99 {
        path_ep = *rng.pick(&["", "registerx", "add_appointment/", "v2/register", "ping", "get_appointments", "%00", "register?x=1"]);
        body = serde_json::to_vec(&valid).unwrap();
        what = format!("path /{path_ep}");
        // "register?x=1" and POST /ping are existing-but-odd; no expectation on those
        // a trailing slash / query string still addresses the endpoint (warp matches the first segment)
        expect = if path_ep.starts_with("register?") || path_ep.ends_with('/') { Expectation::Either } else { Expectation::MustFail };
    } else {
        content_type = None;
        body = serde_json::to_vec(&valid).unwrap();
        what = "no content type".into();
        expect = Expectation::Either;
    }
    Req { endpoint: path_ep, method, body, content_type, expect, what: format!("{endpoint}: {what}") }
}

/// What the tower (from memory) tells each user of the world about their subscription: slots, expiry, locators.
/// `None` = not registered / expired. Asked of the InternalAPI directly, with the unreachable flag lifted for the question.
type WireView = Vec<Option<(u32, u32, Vec<Vec<u8>>)>>;
fn wire_view(rt: &tokio::runtime::Runtime, api: &Arc<teos::api::internal::InternalAPI>, world: &World, reachable: &tower::Reachable) -> WireView {
    let was = std::mem::replace(&mut *reachable.0.lock().unwrap(), true);
    let v = world
        .users
        .iter()
        .map(|(sk, _)| {
            let signature = cryptography::sign(b"get subscription info", sk);
            rt.block_on(api.get_subscription_info(Request::new(msgs::GetSubscriptionInfoRequest { signature }))).ok().map(|r| {
                let r = r.into_inner();
                let mut l = r.locators;
                l.sort();
                (r.available_slots, r.subscription_expiry, l)
            })
        })
        .collect();
    *reachable.0.lock().unwrap() = was;
    v
}

pub fn run_c15(seed: u64, shard: u64, requests: u64, rep: &mut Report) {
    panics::install();
    let dir = PathBuf::from(format!("/dev/shm/tv-e5-{}", std::process::id()));
    std::fs::create_dir_all(&dir).unwrap();
    let mut rng = Rng::stream(seed, 0xE5, shard);
    let world = World::new(&mut rng, 4, 4, 101);
    // every fourth shard runs a tower whose subscription is so large that the third registration of a user overflows the
    // slot counter: the documented "resource exhausted" rejection, which must change nothing either
    let big = shard % 4 == 3;
    let cfg = TowerCfg { slots: if big { u32::MAX / 2 } else { 50 }, duration: 500, grace: 6, db_path: dir.join("c15.sqlite") };
    let _ = std::fs::remove_file(&cfg.db_path);
    let chain = world.simchain();
    let node = world.node.clone();
    let rt = tokio::runtime::Builder::new_multi_thread().worker_threads(3).enable_all().build().unwrap();
    let r = rep.p("C15");
    let res = tower::run_session(&chain, &node, &cfg, |s| {
        let api = s.api.local();
        let (addr, shutdown) = match rt.block_on(start(api)) {
            Ok(x) => x,
            Err(e) => {
                r.inconclusive += 1;
                r.note(format!("servers did not start: {e}"));
                return;
            }
        };
        let timeout = Duration::from_secs(20);
        let mut registered: Vec<usize> = Vec::new();
        for i in 0..requests {
            // every now and then the tower believes bitcoind is unreachable for a few requests
            let down = i % 40 >= 35;
            *s.reachable.0.lock().unwrap() = !down;
            let mut req = gen_request(&mut rng, &world, &registered);
            if (down || big) && req.expect == Expectation::MustSucceed {
                req.expect = Expectation::Either;
            }
            let before = Snap::read(&cfg.db_path).unwrap_or_default();
            let wire_before = wire_view(&rt, &s.api.local(), &world, &s.reachable);
            let path = format!("/{}", req.endpoint);
            let mut reply = raw_request(addr, req.method, &path, req.content_type, &req.body, timeout);
            r.eval();
            let replay = json!({"engine":"e5","seed":seed,"shard":shard,"request":i,"what":req.what,"method":req.method,"path":path,"body_hex":hex::encode(&req.body[..req.body.len().min(4096)])});
            if reply.is_err() {
                // a hang / reset: try again alone before judging (loaded machine)
                std::thread::sleep(Duration::from_millis(200));
                reply = raw_request(addr, req.method, &path, req.content_type, &req.body, timeout);
            }
            let reply = match reply {
                Ok(x) => x,
                Err(e) => {
                    r.violation("C15:no-answer", format!("request #{i} ({}) got no HTTP answer twice: {e}", req.what), replay);
                    break;
                }
            };
            r.count(&format!("status[{}]", reply.status), 1);
            r.nontrivial(fnv(&req.body) ^ fnv(path.as_bytes()) ^ fnv(req.method.as_bytes()));
            let after = Snap::read(&cfg.db_path).unwrap_or_default();
            let wire_after = wire_view(&rt, &s.api.local(), &world, &s.reachable);
            let existing_ep = LIMITS.iter().find(|(e, _)| *e == req.endpoint);
            // (1) status class
            let ok_class = reply.status == 200 || (400..500).contains(&reply.status) || reply.status == 503;
            if !ok_class {
                r.violation(format!("C15:status-{}", reply.status), format!("request #{i} ({}): status {} is neither 200, 4xx nor 503; body {:?}", req.what, reply.status, String::from_utf8_lossy(&reply.body[..reply.body.len().min(200)])), replay.clone());
                continue;
            }
            // (2) non-200 leaves the state unchanged
            if reply.status != 200 && !after.content_eq(&before) {
                r.violation("C15:rejected-request-changed-state", format!("request #{i} ({}) was answered {} but the tower database changed", req.what, reply.status), replay.clone());
            }
            // ... including the state the tower holds in memory, as it reports it itself to every user of the world
            if reply.status != 200 {
                r.count("rejections_with_memory_view_compared", 1);
                if wire_after != wire_before {
                    let who = (0..wire_before.len()).find(|u| wire_before[*u] != wire_after[*u]).unwrap_or(0);
                    r.violation("C15:rejected-request-changed-memory", format!("request #{i} ({}) was answered {} {:?} but what the tower reports about user {who} changed: {:?} -> {:?}", req.what, reply.status, String::from_utf8_lossy(&reply.body[..reply.body.len().min(120)]), wire_before[who].as_ref().map(|x| (x.0, x.1, x.2.len())), wire_after[who].as_ref().map(|x| (x.0, x.1, x.2.len()))), replay.clone());
                }
                if big && serde_json::from_slice::<Value>(&reply.body).ok().and_then(|v| v.get("error_code").and_then(|c| c.as_u64())) == Some(65) {
                    r.count("slot_overflow_rejections", 1);
                }
            }
            if down && reply.status == 200 {
                r.violation("C15:accepted-while-unavailable", format!("request #{i} ({}) was answered 200 while bitcoind is flagged unreachable", req.what), replay.clone());
            }
            if down {
                r.count("requests_while_unreachable", 1);
            }
            // (3) expectations by construction
            match (req.expect, reply.status) {
                (Expectation::MustFail, 200) => r.violation("C15:malformed-request-accepted", format!("request #{i} ({}) is malformed by construction but was answered 200: {:?}", req.what, String::from_utf8_lossy(&reply.body[..reply.body.len().min(200)])), replay.clone()),
                (Expectation::MustSucceed, st) if st != 200 => r.violation("C15:valid-request-refused", format!("request #{i} ({}) is valid but was answered {st}: {:?}", req.what, String::from_utf8_lossy(&reply.body[..reply.body.len().min(200)])), replay.clone()),
                _ => {}
            }
            // (4) error body: existing endpoint + POST + acceptable size + json content type
            if let Some((ep, limit)) = existing_ep {
                if req.method == "POST" && req.body.len() <= *limit && req.content_type.is_some() {
                    if reply.status == 200 {
                        let v: Result<Value, _> = serde_json::from_slice(&reply.body);
                        let fields: &[&str] = match *ep {
                            "register" => &["user_id", "available_slots", "subscription_start", "subscription_expiry", "subscription_signature"],
                            "add_appointment" => &["locator", "start_block", "signature", "available_slots", "subscription_expiry"],
                            "get_appointment" => &["appointment", "status"],
                            _ => &["available_slots", "subscription_expiry", "locators"],
                        };
                        match v {
                            Ok(Value::Object(m)) if fields.iter().all(|f| m.contains_key(*f)) => {
                                r.count("ok_replies_checked", 1);
                                if *ep == "register" {
                                    // keep track of who is registered, to make later valid requests succeed
                                    if let Some(uid) = m.get("user_id").and_then(|x| x.as_str()) {
                                        if let Some(u) = world.users.iter().position(|k| hex::encode(k.1.serialize()) == uid) {
                                            if !registered.contains(&u) {
                                                registered.push(u);
                                            }
                                            // the receipt must verify (what the client would check)
                                            let rr = RegistrationReceipt::with_signature(UserId(world.users[u].1), m["available_slots"].as_u64().unwrap_or(0) as u32, m["subscription_start"].as_u64().unwrap_or(0) as u32, m["subscription_expiry"].as_u64().unwrap_or(0) as u32, m["subscription_signature"].as_str().unwrap_or("").to_string());
                                            if !rr.verify(&s.tower_id) {
                                                r.violation("C15:register-reply-not-verifiable", format!("request #{i}: the 200 reply does not verify under the tower id"), replay.clone());
                                            }
                                        }
                                    }
                                }
                            }
                            other => r.violation("C15:ok-body-not-documented", format!("request #{i} ({}): 200 with a body that is not the documented reply object: {:?}", req.what, other.map(|x| x.to_string().chars().take(200).collect::<String>())), replay.clone()),
                        }
                    } else {
                        match serde_json::from_slice::<Value>(&reply.body) {
                            Ok(Value::Object(m)) if m.get("error").map_or(false, |e| e.is_string()) && m.get("error_code").and_then(|c| c.as_u64()).is_some() => {
                                let code = m["error_code"].as_u64().unwrap();
                                r.count(&format!("error_code[{code}]"), 1);
                                if code == 255 {
                                    r.violation("C15:unexpected-error-code-255", format!("request #{i} ({}): answered with the catch-all 'unexpected error' code: {:?}", req.what, m.get("error")), replay.clone());
                                } else if !DOCUMENTED_CODES.contains(&code) {
                                    r.violation(format!("C15:undocumented-error-code-{code}"), format!("request #{i} ({}): undocumented error code {code}", req.what), replay.clone());
                                }
                            }
                            other => r.violation("C15:error-body-not-json-error", format!("request #{i} ({}): status {} with a body that is not a JSON error object: {:?}", req.what, reply.status, other.map(|x| x.to_string().chars().take(200).collect::<String>()).unwrap_or_else(|_| String::from_utf8_lossy(&reply.body[..reply.body.len().min(200)]).to_string())), replay.clone()),
                        }
                    }
                }
            }
            r.sample(|| json!({"request": i, "what": req.what, "method": req.method, "path": path, "status": reply.status, "reply": String::from_utf8_lossy(&reply.body[..reply.body.len().min(160)])}));
        }
        shutdown.trigger();
    });
    if let Err(e) = res {
        r.inconclusive += 1;
        r.note(format!("tower did not start: {e:?}"));
    }
    for p in panics::take() {
        rep.p("C15").violation(format!("C15:panic:fn={}", p.function), format!("tower code panicked while serving HTTP: {} at {}", p.message, p.location), json!({"engine":"e5","seed":seed,"shard":shard}));
    }
    drop(rt);
    std::fs::remove_dir_all(&dir).ok();
}

// ------------------------------------------------------------------------------------------------
// C16

#[derive(Default)]
struct StubState {
    register: VecDeque<Result<msgs::RegisterResponse, Status>>,
    add: VecDeque<Result<msgs::AddAppointmentResponse, Status>>,
    get: VecDeque<Result<msgs::GetAppointmentResponse, Status>>,
    sub: VecDeque<Result<msgs::GetSubscriptionInfoResponse, Status>>,
    rec_register: Vec<msgs::RegisterRequest>,
    rec_add: Vec<msgs::AddAppointmentRequest>,
    rec_get: Vec<msgs::GetAppointmentRequest>,
    rec_sub: Vec<msgs::GetSubscriptionInfoRequest>,
}

#[derive(Clone)]
struct Stub(Arc<Mutex<StubState>>);

#[tonic::async_trait]
impl PublicTowerServices for Stub {
    async fn register(&self, request: Request<msgs::RegisterRequest>) -> Result<Response<msgs::RegisterResponse>, Status> {
        let mut st = self.0.lock().unwrap();
        st.rec_register.push(request.into_inner());
        st.register.pop_front().unwrap_or_else(|| Err(Status::internal("no scripted reply"))).map(Response::new)
    }
    async fn add_appointment(&self, request: Request<msgs::AddAppointmentRequest>) -> Result<Response<msgs::AddAppointmentResponse>, Status> {
        let mut st = self.0.lock().unwrap();
        st.rec_add.push(request.into_inner());
        st.add.pop_front().unwrap_or_else(|| Err(Status::internal("no scripted reply"))).map(Response::new)
    }
    async fn get_appointment(&self, request: Request<msgs::GetAppointmentRequest>) -> Result<Response<msgs::GetAppointmentResponse>, Status> {
        let mut st = self.0.lock().unwrap();
        st.rec_get.push(request.into_inner());
        st.get.pop_front().unwrap_or_else(|| Err(Status::internal("no scripted reply"))).map(Response::new)
    }
    async fn get_subscription_info(&self, request: Request<msgs::GetSubscriptionInfoRequest>) -> Result<Response<msgs::GetSubscriptionInfoResponse>, Status> {
        let mut st = self.0.lock().unwrap();
        st.rec_sub.push(request.into_inner());
        st.sub.pop_front().unwrap_or_else(|| Err(Status::internal("no scripted reply"))).map(Response::new)
    }
}

fn u32_edge(rng: &mut Rng) -> u32 {
    match rng.below(8) {
        0 => 0,
        1 => 1,
        2 => u32::MAX,
        3 => u32::MAX - 1,
        4 => 0x8000_0000,
        5 => 255,
        6 => 65536,
        _ => rng.next_u32(),
    }
}

fn sig_like(rng: &mut Rng, max: usize) -> String {
    // arbitrary non-empty strings (the router refuses empty signatures): zbase32-looking, unicode, quotes, escapes
    let n = 1 + rng.usize(max);
    match rng.below(4) {
        0 => (0..n).map(|_| *rng.pick(&['y', 'b', 'n', 'd', 'r', 'f', 'g', '8', 'e', 'j', 'k', 'm', 'c', 'p', 'q', 'x', 'o', 't', '1', 'u', 'w', 'i', 's', 'z', 'a', '3', '4', '5', 'h', '7', '6', '9'])).collect(),
        1 => (0..n / 4 + 1).map(|_| *rng.pick(&['é', 'ß', '✓', 'a', '"', '\\', '\n', ' ', '\u{0}', '/', '<'])).collect(),
        2 => "x".repeat(n),
        _ => String::from_utf8_lossy(&rng.bytes(n)).chars().filter(|c| *c != '\u{fffd}').collect::<String>() + "s",
    }
}

/// Shortens `sig` until `body(sig)` fits the endpoint's request-size limit.
fn fit(mut sig: String, limit: usize, body: impl Fn(&str) -> usize) -> String {
    while body(&sig) > limit && sig.chars().count() > 1 {
        let n = sig.chars().count();
        sig = sig.chars().take(n - 1 - n / 8).collect();
    }
    sig
}

fn status_for(rng: &mut Rng) -> (Status, u8, u16) {
    match rng.below(6) {
        0 => (Status::invalid_argument("bad arg"), 5, 400),
        1 => (Status::not_found("Appointment not found"), 36, 404),
        2 => (Status::already_exists("already triggered"), 35, 400),
        3 => (Status::resource_exhausted("max slots"), 65, 400),
        4 => (Status::unauthenticated("Your subscription expired at 5"), 7, 401),
        _ => (Status::unavailable("Service currently unavailable"), 32, 503),
    }
}

pub fn run_c16(seed: u64, shard: u64, messages: u64, rep: &mut Report) {
    panics::install();
    let mut rng = Rng::stream(seed, 0xC16, shard);
    let rt = tokio::runtime::Builder::new_multi_thread().worker_threads(3).enable_all().build().unwrap();
    let stub = Stub(Arc::new(Mutex::new(StubState::default())));
    let r = rep.p("C16");
    let (addr, shutdown) = match rt.block_on(start(stub.clone())) {
        Ok(x) => x,
        Err(e) => {
            r.inconclusive += 1;
            r.note(format!("servers did not start: {e}"));
            return;
        }
    };
    let net = NetAddr::new(format!("http://{addr}"));
    let (tower_sk, tower_pk) = gen::keypair(&mut rng);
    let tower_id = TowerId(tower_pk);
    for i in 0..messages {
        r.eval();
        {
            // a message that went wrong must not shift the scripted replies of the following ones
            let mut st = stub.0.lock().unwrap();
            st.register.clear();
            st.add.clear();
            st.get.clear();
            st.sub.clear();
        }
        let replay = json!({"engine":"e5-c16","seed":seed,"shard":shard,"message":i});
        match rng.below(4) {
            // ---------------- register
            0 => {
                let (_usk, upk) = gen::keypair(&mut rng);
                let user_id = UserId(upk);
                let want_err = rng.chance(1, 5);
                let (slots, start, expiry) = (u32_edge(&mut rng), u32_edge(&mut rng), u32_edge(&mut rng));
                let mut receipt = RegistrationReceipt::new(user_id, slots, start, expiry);
                receipt.sign(&tower_sk);
                let scripted = if want_err {
                    Err(status_for(&mut rng))
                } else {
                    Ok(msgs::RegisterResponse { user_id: user_id.to_vec(), available_slots: slots, subscription_start: start, subscription_expiry: expiry, subscription_signature: receipt.signature().unwrap() })
                };
                stub.0.lock().unwrap().register.push_back(scripted.clone().map_err(|e| e.0));
                let got = rt.block_on(client::register(tower_id, user_id, &net, &None));
                let rec = stub.0.lock().unwrap().rec_register.pop();
                r.nontrivial(fnv(&user_id.to_vec()) ^ slots as u64);
                r.count("register_messages", 1);
                if rec.as_ref().map(|x| &x.user_id) != Some(&user_id.to_vec()) {
                    r.violation("C16:register-request-differs", format!("message #{i}: the tower parsed user_id {:?}, the client sent {:?}", rec.map(|x| hex::encode(x.user_id)), hex::encode(user_id.to_vec())), replay.clone());
                }
                match (scripted, got) {
                    (Ok(_), Ok(g)) => {
                        if g != receipt || !g.verify(&tower_id) {
                            r.violation("C16:register-reply-differs", format!("message #{i}: client parsed {g:?}, tower produced {receipt:?}"), replay.clone());
                        }
                    }
                    (Err(_), Err(_)) => {}
                    (s, g) => r.violation("C16:register-outcome-differs", format!("message #{i}: tower produced {:?}, client concluded {g:?}", s.map(|_| "ok").map_err(|e| e.1)), replay.clone()),
                }
            }
            // ---------------- add_appointment (through the client's send_appointment)
            1 => {
                let loc = rng.bytes(16);
                let blob = rng.bytes_pick(&[0usize, 1, 2, 15, 16, 17, 100, 500, 850]);
                let tsd = u32_edge(&mut rng);
                let user_sig = fit(sig_like(&mut rng, 100), 2048, |s| serde_json::to_vec(&msgs::AddAppointmentRequest { appointment: Some(msgs::Appointment { locator: loc.clone(), encrypted_blob: blob.clone(), to_self_delay: tsd }), signature: s.to_string() }).unwrap().len());
                let appointment = teos_common::appointment::Appointment::new(teos_common::appointment::Locator::from_slice(&loc).unwrap(), blob.clone(), tsd);
                let start_block = u32_edge(&mut rng);
                let (slots, expiry) = (u32_edge(&mut rng), u32_edge(&mut rng));
                let mut receipt = AppointmentReceipt::new(user_sig.clone(), start_block);
                receipt.sign(&tower_sk);
                let want_err = rng.chance(1, 5);
                let scripted = if want_err {
                    Err(status_for(&mut rng))
                } else {
                    Ok(msgs::AddAppointmentResponse { locator: loc.clone(), start_block, signature: receipt.signature().unwrap(), available_slots: slots, subscription_expiry: expiry })
                };
                stub.0.lock().unwrap().add.push_back(scripted.clone().map_err(|e| e.0));
                let got = rt.block_on(client::send_appointment(tower_id, &net, &None, &appointment, &user_sig));
                let rec = stub.0.lock().unwrap().rec_add.pop();
                r.nontrivial(fnv(&blob) ^ fnv(user_sig.as_bytes()) ^ tsd as u64);
                r.count("add_appointment_messages", 1);
                let rec_ok = rec.as_ref().map_or(false, |x| x.signature == user_sig && x.appointment.as_ref().map_or(false, |a| a.locator == loc && a.encrypted_blob == blob && a.to_self_delay == tsd));
                if !rec_ok {
                    r.violation("C16:add-request-differs", format!("message #{i}: the tower parsed {:?} but the client sent (locator {}, blob {} bytes, tsd {tsd}, signature {user_sig:?})", rec.map(|x| (x.signature, x.appointment.map(|a| (hex::encode(a.locator), a.encrypted_blob.len(), a.to_self_delay)))), hex::encode(&loc), blob.len()), replay.clone());
                }
                match (scripted, got) {
                    (Ok(s), Ok((g, grec))) => {
                        if g != s || grec != receipt {
                            r.violation("C16:add-reply-differs", format!("message #{i}: client parsed {g:?}, tower produced {s:?}"), replay.clone());
                        }
                    }
                    (Err((_, code, _)), Err(client::AddAppointmentError::ApiError(e))) => {
                        if e.error_code != code {
                            r.violation("C16:error-code-differs", format!("message #{i}: tower status maps to code {code}, client parsed {}", e.error_code), replay.clone());
                        }
                    }
                    (s, g) => r.violation("C16:add-outcome-differs", format!("message #{i}: tower produced {:?}, client concluded {:?}", s.map(|_| "ok").map_err(|e| e.1), g.map(|_| "ok")), replay.clone()),
                }
            }
            // ---------------- get_appointment (generic client request/response code, as the plugin's main does)
            2 => {
                let loc = rng.bytes(16);
                let sig = fit(sig_like(&mut rng, 100), 178, |s| serde_json::to_vec(&msgs::GetAppointmentRequest { locator: loc.clone(), signature: s.to_string() }).unwrap().len());
                let req = msgs::GetAppointmentRequest { locator: loc.clone(), signature: sig.clone() };
                let data = match rng.below(3) {
                    0 => Some(msgs::AppointmentData { appointment_data: Some(msgs::appointment_data::AppointmentData::Appointment(msgs::Appointment { locator: rng.bytes(16), encrypted_blob: rng.bytes_pick(&[0usize, 1, 33, 700]), to_self_delay: u32_edge(&mut rng) })) }),
                    1 => Some(msgs::AppointmentData { appointment_data: Some(msgs::appointment_data::AppointmentData::Tracker(msgs::Tracker { dispute_txid: rng.bytes(32), penalty_txid: rng.bytes(32), penalty_rawtx: rng.bytes_pick(&[0usize, 60, 400]) })) }),
                    _ => None,
                };
                let scripted: Result<msgs::GetAppointmentResponse, (Status, u8, u16)> = if rng.chance(1, 5) || data.is_none() { Err(status_for(&mut rng)) } else { Ok(msgs::GetAppointmentResponse { appointment_data: data, status: rng.below(3) as i32 }) };
                stub.0.lock().unwrap().get.push_back(scripted.clone().map_err(|e| e.0));
                let got: Result<client::ApiResponse<msgs::GetAppointmentResponse>, _> = rt.block_on(async { client::process_post_response(client::post_request(&net, Endpoint::GetAppointment, &req, &None).await).await });
                let rec = stub.0.lock().unwrap().rec_get.pop();
                r.nontrivial(fnv(&loc) ^ fnv(sig.as_bytes()));
                r.count("get_appointment_messages", 1);
                if rec.as_ref() != Some(&req) {
                    r.violation("C16:get-request-differs", format!("message #{i}: the tower parsed {rec:?}, the client sent {req:?}"), replay.clone());
                }
                match (scripted, got) {
                    (Ok(s), Ok(client::ApiResponse::Response(g))) => {
                        if g != s {
                            r.violation("C16:get-reply-differs", format!("message #{i}: client parsed {g:?}, tower produced {s:?}"), replay.clone());
                        }
                    }
                    (Err((_, code, _)), Ok(client::ApiResponse::Error(e))) => {
                        if e.error_code != code {
                            r.violation("C16:error-code-differs", format!("message #{i}: code {code} vs {}", e.error_code), replay.clone());
                        }
                    }
                    (s, g) => r.violation("C16:get-outcome-differs", format!("message #{i}: tower produced {:?}, client concluded {:?}", s.map(|_| "ok").map_err(|e| e.1), g.map(|x| format!("{x:?}").chars().take(80).collect::<String>())), replay.clone()),
                }
            }
            // ---------------- get_subscription_info
            _ => {
                let sig = fit(sig_like(&mut rng, 100), 127, |s| serde_json::to_vec(&msgs::GetSubscriptionInfoRequest { signature: s.to_string() }).unwrap().len());
                let req = msgs::GetSubscriptionInfoRequest { signature: sig.clone() };
                let n_loc = *rng.pick(&[0usize, 1, 2, 10]);
                let scripted: Result<msgs::GetSubscriptionInfoResponse, (Status, u8, u16)> = if rng.chance(1, 5) {
                    Err(status_for(&mut rng))
                } else {
                    Ok(msgs::GetSubscriptionInfoResponse { available_slots: u32_edge(&mut rng), subscription_expiry: u32_edge(&mut rng), locators: (0..n_loc).map(|_| rng.bytes(16)).collect() })
                };
                stub.0.lock().unwrap().sub.push_back(scripted.clone().map_err(|e| e.0));
                let got: Result<client::ApiResponse<msgs::GetSubscriptionInfoResponse>, _> = rt.block_on(async { client::process_post_response(client::post_request(&net, Endpoint::GetSubscriptionInfo, &req, &None).await).await });
                let rec = stub.0.lock().unwrap().rec_sub.pop();
                r.nontrivial(fnv(sig.as_bytes()) ^ 0x5b);
                r.count("get_subscription_info_messages", 1);
                if rec.as_ref() != Some(&req) {
                    r.violation("C16:sub-request-differs", format!("message #{i}: the tower parsed {rec:?}, the client sent {req:?}"), replay.clone());
                }
                match (scripted, got) {
                    (Ok(s), Ok(client::ApiResponse::Response(g))) => {
                        if g != s {
                            r.violation("C16:sub-reply-differs", format!("message #{i}: client parsed {g:?}, tower produced {s:?}"), replay.clone());
                        }
                    }
                    (Err((_, code, _)), Ok(client::ApiResponse::Error(e))) => {
                        if e.error_code != code {
                            r.violation("C16:error-code-differs", format!("message #{i}: code {code} vs {}", e.error_code), replay.clone());
                        }
                    }
                    (s, g) => r.violation("C16:sub-outcome-differs", format!("message #{i}: tower produced {:?}, client concluded {:?}", s.map(|_| "ok").map_err(|e| e.1), g.map(|x| format!("{x:?}").chars().take(80).collect::<String>())), replay.clone()),
                }
            }
        }
        if i % 50 == 0 {
            r.sample(|| json!({"message": i, "note": "one request + one scripted reply through the real router; both directions compared field by field"}));
        }
    }
    shutdown.trigger();
    // ---- serialise / re-parse identity and signed layouts (no network)
    for i in 0..messages * 4 {
        let replay = json!({"engine":"e5-c16-layout","seed":seed,"shard":shard,"case":i});
        r.count("layout_cases", 1);
        // Appointment::to_vec  = locator(16) || blob || to_self_delay(4, BE)
        let loc = rng.bytes(16);
        let blob = rng.bytes_pick(&[0usize, 1, 4, 16, 20, 100]);
        let tsd = u32_edge(&mut rng);
        let a = teos_common::appointment::Appointment::new(teos_common::appointment::Locator::from_slice(&loc).unwrap(), blob.clone(), tsd);
        let v = a.to_vec();
        if v.len() != 20 + blob.len() || v[..16] != loc[..] || v[16..v.len() - 4] != blob[..] || v[v.len() - 4..] != tsd.to_be_bytes() {
            r.violation("C16:appointment-layout", "Appointment::to_vec is not locator || blob || to_self_delay(BE)", replay.clone());
        }
        // a different tuple gives different bytes (move one byte between blob and delay)
        let mut blob2 = blob.clone();
        blob2.push((tsd >> 24) as u8);
        let a2 = teos_common::appointment::Appointment::new(teos_common::appointment::Locator::from_slice(&loc).unwrap(), blob2, tsd << 8);
        if a2.to_vec() == v && (a2.encrypted_blob != a.encrypted_blob || a2.to_self_delay != a.to_self_delay) {
            r.violation("C16:appointment-layout-ambiguous", "two different appointments serialise to the same signed bytes", replay.clone());
        }
        // RegistrationReceipt::to_vec = user_id(33) || slots || start || expiry (BE)
        let (_s, upk) = gen::keypair(&mut rng);
        let (x, y, z) = (u32_edge(&mut rng), u32_edge(&mut rng), u32_edge(&mut rng));
        let rr = RegistrationReceipt::new(UserId(upk), x, y, z).to_vec();
        let mut want = upk.serialize().to_vec();
        want.extend(x.to_be_bytes());
        want.extend(y.to_be_bytes());
        want.extend(z.to_be_bytes());
        if rr != want {
            r.violation("C16:registration-receipt-layout", "RegistrationReceipt::to_vec is not user_id || slots || start || expiry", replay.clone());
        }
        // AppointmentReceipt::to_vec = user_signature || start_block (BE)
        let us = sig_like(&mut rng, 60);
        let sb = u32_edge(&mut rng);
        let ar = AppointmentReceipt::new(us.clone(), sb).to_vec();
        let mut want = us.as_bytes().to_vec();
        want.extend(sb.to_be_bytes());
        if ar != want {
            r.violation("C16:appointment-receipt-layout", "AppointmentReceipt::to_vec is not user_signature || start_block", replay.clone());
        }
        // JSON identity for every message type
        macro_rules! roundtrip {
            ($v:expr, $t:ty, $name:expr) => {{
                let v: $t = $v;
                let s = serde_json::to_string(&v).unwrap();
                match serde_json::from_str::<$t>(&s) {
                    Ok(back) if back == v => {}
                    other => r.violation(format!("C16:json-roundtrip:{}", $name), format!("{} does not survive serialise + parse: {s} -> {other:?}", $name), replay.clone()),
                }
            }};
        }
        roundtrip!(msgs::RegisterRequest { user_id: rng.bytes_pick(&[0usize, 33, 40]) }, msgs::RegisterRequest, "RegisterRequest");
        roundtrip!(msgs::RegisterResponse { user_id: rng.bytes(33), available_slots: u32_edge(&mut rng), subscription_start: u32_edge(&mut rng), subscription_expiry: u32_edge(&mut rng), subscription_signature: sig_like(&mut rng, 50) }, msgs::RegisterResponse, "RegisterResponse");
        roundtrip!(msgs::AddAppointmentRequest { appointment: Some(msgs::Appointment { locator: rng.bytes(16), encrypted_blob: blob.clone(), to_self_delay: tsd }), signature: sig_like(&mut rng, 50) }, msgs::AddAppointmentRequest, "AddAppointmentRequest");
        roundtrip!(msgs::AddAppointmentResponse { locator: rng.bytes(16), start_block: u32_edge(&mut rng), signature: sig_like(&mut rng, 50), available_slots: u32_edge(&mut rng), subscription_expiry: u32_edge(&mut rng) }, msgs::AddAppointmentResponse, "AddAppointmentResponse");
        roundtrip!(msgs::GetAppointmentRequest { locator: rng.bytes(16), signature: sig_like(&mut rng, 50) }, msgs::GetAppointmentRequest, "GetAppointmentRequest");
        roundtrip!(msgs::GetAppointmentResponse { appointment_data: Some(msgs::AppointmentData { appointment_data: Some(msgs::appointment_data::AppointmentData::Tracker(msgs::Tracker { dispute_txid: rng.bytes(32), penalty_txid: rng.bytes(32), penalty_rawtx: rng.bytes(50) })) }), status: rng.below(3) as i32 }, msgs::GetAppointmentResponse, "GetAppointmentResponse(tracker)");
        roundtrip!(msgs::GetAppointmentResponse { appointment_data: Some(msgs::AppointmentData { appointment_data: Some(msgs::appointment_data::AppointmentData::Appointment(msgs::Appointment { locator: rng.bytes(16), encrypted_blob: rng.bytes(40), to_self_delay: u32_edge(&mut rng) })) }), status: rng.below(3) as i32 }, msgs::GetAppointmentResponse, "GetAppointmentResponse(appointment)");
        roundtrip!(msgs::GetSubscriptionInfoRequest { signature: sig_like(&mut rng, 50) }, msgs::GetSubscriptionInfoRequest, "GetSubscriptionInfoRequest");
        roundtrip!(msgs::GetSubscriptionInfoResponse { available_slots: u32_edge(&mut rng), subscription_expiry: u32_edge(&mut rng), locators: (0..rng.usize(4)).map(|_| rng.bytes(16)).collect() }, msgs::GetSubscriptionInfoResponse, "GetSubscriptionInfoResponse");
    }
    for p in panics::take() {
        rep.p("C16").violation(format!("C16:panic:fn={}", p.function), format!("panic while exchanging messages: {} at {}", p.message, p.location), json!({"engine":"e5-c16","seed":seed,"shard":shard}));
    }
    drop(rt);
    let _ = Map::<String, Value>::new();
}
