//! C12 against the real binary: the connection to bitcoind is lost at a node RPC of a history.
//!
//! Reference: the history runs uninterrupted against a real teosd (model-checked, as in `e3`), which
//! gives the database after every operation and the number of node RPCs (sendrawtransaction /
//! getrawtransaction) teosd issued. Fault `Outage{rpc: k, polls_down: d}`: from teosd's k-th node RPC
//! on the fake bitcoind drops every connection without an answer (RPC and block source alike) until
//! the driver ends the outage. Real TCP, real bitcoincore_rpc / lightning-block-sync clients, real
//! time (the Carrier's retry clock is not virtual here: a fault on the block-processing path costs
//! one retry period of wall time).
//!
//! Oracle (bounded progress, same as e1o): (1) the operation in flight does not return while the node
//! is down (its RPC is not given up); (2) while it waits, all four public endpoints answer 'service
//! unavailable'; (3) polls granted during the outage return; (4) once the node is back the operation
//! completes within the retry period + slack, the API takes work again; (5) from then on the database
//! after every operation equals the uninterrupted run's.

use crate::chain::{lock, SimChain};
use crate::e1::Case;
use crate::e1c::{compare, lifecycle_case, short_op, LIFECYCLE_BASE};
use crate::e3::run_case_remote;
use crate::remote::{panic_in, run_remote_session, FakeBitcoind, StopMode, TeosdOpts};
use crate::report::Report;
use crate::rng::fnv;
use crate::snap::Snap;
use crate::tower::{self, Api, TowerCfg};
use crate::world::{Op, World};
use serde_json::json;
use std::collections::BTreeMap;
use std::path::{Path, PathBuf};
use std::sync::atomic::Ordering;
use std::sync::Arc;
use std::time::{Duration, Instant};
use tonic::Code;

#[derive(Clone, Debug)]
pub struct Fault {
    pub rpc: u64,
    pub polls_down: u32,
    /// the outage starts with a reply cut in the middle of its body (the node dies while answering) instead of a
    /// connection that is dropped before anything is answered
    pub cut_reply: bool,
}

pub struct FaultRun {
    pub violation: Option<(String, String)>,
    pub inconclusive: Option<String>,
    pub hit: bool,
    pub during: Option<String>,
    pub blocked_ms: u64,
    pub unavailable_answers: u64,
    pub polls_during_outage: u64,
}

fn probe(api: &Api) -> Vec<(&'static str, Option<Code>)> {
    let c = |r: Result<(), tower::ApiErr>| r.err().map(|e| e.code());
    vec![
        ("register", c(tower::register(api, vec![1, 2, 3]).map(|_| ()))),
        ("add_appointment", c(tower::add_appointment(api, vec![0u8; 16], vec![1, 2, 3], 1, "x".into()).map(|_| ()))),
        ("get_appointment", c(tower::get_appointment(api, vec![0u8; 16], "x".into()).map(|_| ()))),
        ("get_subscription_info", c(tower::get_subscription_info(api, "x".into()).map(|_| ()))),
    ]
}

/// `e1c::exec_raw` without the session object (the operation runs on a worker thread).
fn exec_remote(world: &mut World, api: &Api, btc: &FakeBitcoind, op: &Op, salt: u64) {
    match op.clone() {
        Op::Register { user } => {
            let _ = tower::register(api, world.users[user].1.serialize().to_vec());
        }
        Op::RegisterBadId { len } => {
            let _ = tower::register(api, vec![7u8; len]);
        }
        Op::Add { ver, sig, .. } => {
            let v = world.versions[ver].clone();
            let _ = tower::add_appointment(api, world.chans[v.chan].locator.clone(), v.blob, v.tsd, sig);
        }
        Op::GetAppt { chan, sig, .. } => {
            let _ = tower::get_appointment(api, world.chans[chan].locator.clone(), sig);
        }
        Op::GetSub { sig, .. } => {
            let _ = tower::get_subscription_info(api, sig);
        }
        Op::Mine { blocks } => world.mine(&blocks, salt),
        Op::Reorg { depth, blocks } => world.reorg(depth, &blocks, salt),
        Op::Poll => {
            let _ = btc.grant_poll(Duration::from_secs(120), &mut || true);
        }
        Op::Script { tx, script } => {
            let txid = world.resolve(&tx, salt).compute_txid();
            world.set_script(txid, script);
        }
        Op::TxIndex { on } => lock(&world.node.state).txindex = on,
        Op::Restart => {}
    }
}

enum End {
    Done,
    Stop,
}

pub fn run_faulted(world: &mut World, cfg0: &TowerCfg, base: &Path, tag: &str, ops: &[Op], base_snaps: &[Snap], fault: &Fault, salt: u64) -> FaultRun {
    let datadir = base.join(format!("teosd-o-{tag}"));
    let _ = std::fs::remove_dir_all(&datadir);
    std::fs::create_dir_all(&datadir).unwrap();
    let mut cfg = cfg0.clone();
    cfg.db_path = datadir.join("regtest").join("teos_db.sql3");
    let chain: Arc<SimChain> = Arc::new(world.simchain());
    let btc = FakeBitcoind::start(chain, world.node.clone());
    let down = world.node.down.clone();
    if fault.cut_reply {
        lock(&btc.st.0).cut_reply_at_node_rpc = Some(fault.rpc);
    } else {
        lock(&world.node.state).outage = Some((fault.rpc, u64::MAX));
    }
    let mut fr = FaultRun { violation: None, inconclusive: None, hit: false, during: None, blocked_ms: 0, unavailable_answers: 0, polls_during_outage: 0 };
    let empty: BTreeMap<Vec<u8>, u32> = BTreeMap::new();
    let res = run_remote_session(&btc, &datadir, &cfg, &TeosdOpts::default(), StopMode::Kill, |s| -> End {
        let api = s.api.clone();
        let mut recovered = false;
        for (i, op) in ops.iter().enumerate() {
            if let Op::Restart = op {
                // outage histories have no restarts; stop here if one shows up
                return End::Done;
            }
            let is_poll = matches!(op, Op::Poll);
            let mut stop = false;
            std::thread::scope(|sc| {
                let h = sc.spawn(|| exec_remote(world, &api, &btc, op, salt));
                let t0 = Instant::now();
                let mut handled = false;
                let mut deadline: Option<Instant> = None;
                loop {
                    if h.is_finished() {
                        break;
                    }
                    let is_down = down.load(Ordering::SeqCst);
                    if is_down && !handled && t0.elapsed() > Duration::from_millis(1200) {
                        handled = true;
                        fr.hit = true;
                        fr.during = Some(short_op(op));
                        // (2) the tower noticed the outage (its RPC failed, the call is waiting): no new work
                        if let Api::Remote(r) = &api {
                            r.call_timeout_ms.store(20_000, Ordering::SeqCst);
                        }
                        let answers = probe(&api);
                        if let Api::Remote(r) = &api {
                            r.call_timeout_ms.store(45_000, Ordering::SeqCst);
                        }
                        for (ep, code) in answers {
                            match code {
                                Some(Code::Unavailable) => fr.unavailable_answers += 1,
                                Some(Code::DeadlineExceeded) => {
                                    fr.violation = Some(("C12:api-hangs-during-outage".into(), format!("while operation #{i} {} waits for the node (outage from node RPC #{}), {ep} got no answer at all within 20 s (expected 'service unavailable')", short_op(op), fault.rpc)));
                                }
                                Some(Code::Internal) | Some(Code::Unknown) => {
                                    fr.violation = Some((format!("C12:api-breaks-during-outage:{ep}"), format!("while operation #{i} {} waits for the node, {ep} got no proper answer ({code:?})", short_op(op))));
                                }
                                other => {
                                    fr.violation = Some((format!("C12:accepts-work-during-outage:{ep}"), format!("while operation #{i} {} waits for the node (outage from node RPC #{}), {ep} answered {other:?} instead of 'service unavailable'", short_op(op), fault.rpc)));
                                }
                            }
                            if fr.violation.is_some() {
                                break;
                            }
                        }
                        // (3) polls during the outage return (the chain thread is free unless it is the one waiting)
                        if fr.violation.is_none() && !is_poll {
                            for _ in 0..fault.polls_down {
                                match btc.grant_poll(Duration::from_secs(30), &mut || true) {
                                    Ok(()) => fr.polls_during_outage += 1,
                                    Err(e) => {
                                        fr.violation = Some(("C12:poll-does-not-return".into(), format!("a poll issued during the outage did not return: {e}")));
                                        break;
                                    }
                                }
                            }
                        }
                        // the node is back
                        down.store(false, Ordering::SeqCst);
                        if fr.violation.is_none() && !is_poll {
                            // the next poll succeeds and tells the waiter
                            if let Err(e) = btc.grant_poll(Duration::from_secs(30), &mut || true) {
                                fr.violation = Some(("C12:poll-does-not-return".into(), format!("the first poll after the outage did not return: {e}")));
                            }
                        }
                        deadline = Some(Instant::now() + Duration::from_secs(30));
                    }
                    if let Some(d) = deadline {
                        if Instant::now() > d || fr.violation.is_some() {
                            if fr.violation.is_none() {
                                fr.violation = Some(("C12:not-recovered".into(), format!("operation #{i} {} was still waiting 30 s after the node came back (retry period is 10 s)", short_op(op))));
                            }
                            // unblock the worker: the process goes away
                            btc.kill_victim();
                            stop = true;
                            deadline = None;
                        }
                    } else if !handled && t0.elapsed() > Duration::from_secs(90) {
                        fr.inconclusive = Some(format!("operation #{i} {} did not return in 90 s without an outage", short_op(op)));
                        btc.kill_victim();
                        stop = true;
                    }
                    std::thread::sleep(Duration::from_millis(3));
                }
                if handled {
                    fr.blocked_ms = t0.elapsed().as_millis() as u64;
                    recovered = true;
                }
            });
            if stop || fr.violation.is_some() || fr.inconclusive.is_some() {
                return End::Stop;
            }
            if !(s.alive)() {
                fr.violation = Some(("C12:process-died".into(), format!("teosd exited during operation #{i} {}", short_op(op))));
                return End::Stop;
            }
            if down.load(Ordering::SeqCst) {
                // the outage began during this operation, yet it returned: its RPC was given up
                fr.hit = true;
                fr.during = Some(short_op(op));
                down.store(false, Ordering::SeqCst);
                fr.violation = Some(("C12:submission-dropped".into(), format!("operation #{i} {} returned although the node RPC it issued (#{}) failed with a transport error and the node is still down: the request to the node was dropped instead of retried", short_op(op), fault.rpc)));
                return End::Stop;
            }
            if recovered {
                if i + 1 == ops.len() || fr.blocked_ms > 0 {
                    // (4) the API takes work again (checked once, right after the recovery)
                    if fr.blocked_ms > 0 && fr.unavailable_answers > 0 {
                        let codes = probe(&api);
                        if codes.iter().any(|(_, c)| *c == Some(Code::Unavailable)) {
                            fr.violation = Some(("C12:not-recovered".into(), format!("after the node came back and operation #{i} completed, the public API still answers 'service unavailable': {codes:?}")));
                            return End::Stop;
                        }
                        fr.unavailable_answers += 0;
                    }
                }
                // (5) same database as the uninterrupted run
                let got = match Snap::read(&cfg.db_path) {
                    Ok(g) => g,
                    Err(e) => {
                        fr.violation = Some(("C12:after-outage:db-unreadable".into(), e));
                        return End::Stop;
                    }
                };
                if let Some((sig, d)) = compare(&base_snaps[i], &got, &empty, &format!("after operation #{i} {}", short_op(op))) {
                    fr.violation = Some((format!("C12:after-outage:{}", sig.trim_start_matches("C03:")), format!("outage from node RPC #{} during {:?}: {d}", fault.rpc, fr.during)));
                    return End::Stop;
                }
            }
        }
        End::Done
    });
    match res {
        Ok(out) => {
            if fr.violation.is_none() {
                if let Some((loc, msg)) = panic_in(&out.output) {
                    if out.output.contains("Address already in use") {
                        fr.inconclusive = Some("a listening port of teosd was taken by another process".into());
                    } else {
                        fr.violation = Some((format!("C12:panic:msg={}", crate::panics::message_class(&msg)), format!("teosd panicked at {loc}: {msg}")));
                    }
                }
            }
        }
        Err(e) => fr.inconclusive = Some(format!("teosd did not start: {e:?}")),
    }
    btc.shutdown();
    let _ = std::fs::remove_dir_all(&datadir);
    fr
}

fn make_case(seed: u64, id: u64, dir: &PathBuf) -> Case {
    if id % 3 == 0 {
        // completion lifecycle (even ids only: the expiry variant has few node RPCs)
        lifecycle_case(seed, LIFECYCLE_BASE + id * 2, dir).0
    } else {
        let mut c = Case::new(seed, id, "outage", dir);
        c.max_steps = c.max_steps.min(40);
        c
    }
}

pub fn run(seed: u64, shard: u64, nshards: u64, cases: u64, max_faults: usize, parallel: usize, only: Option<(u64, Fault)>, rep: &mut Report) {
    let dir = PathBuf::from(format!("/dev/shm/tv-e3o-{}", std::process::id()));
    std::fs::create_dir_all(&dir).unwrap();
    let ids: Vec<u64> = match &only {
        Some((c, _)) => vec![*c],
        None => (0..cases).map(|i| 9_000_000 + shard + i * nshards).collect(),
    };
    for id in ids {
        let mut case = make_case(seed, id, &dir);
        case.probe = false;
        case.record_snaps = true;
        let pristine = case.world.fork();
        let stats = run_case_remote(&mut case, &dir, false);
        let r = rep.p("C12");
        if let Some(why) = &stats.inconclusive {
            r.eval();
            r.inconclusive += 1;
            r.note(format!("e3o history {id}: reference run: {why}"));
            continue;
        }
        if !case.viols.is_empty() || case.tolerated_divergence || case.snaps.len() != case.ops.len() || case.ops.iter().any(|o| matches!(o, Op::Restart)) {
            r.count("e3o_histories_skipped_as_reference", 1);
            continue;
        }
        let n_rpcs = lock(&case.world.node.state).rpc_calls;
        r.count("e3o_histories", 1);
        r.count("e3o_node_rpcs_in_references", n_rpcs);
        let mut world0 = pristine;
        world0.versions = case.world.versions.clone();
        for v in &world0.versions {
            if let Some(p) = &v.penalty {
                lock(&world0.node.state).parent.insert(p.compute_txid(), world0.chans[v.chan].dtxid);
            }
        }
        let mut faults: Vec<Fault> = Vec::new();
        match &only {
            Some((_, f)) => faults.push(f.clone()),
            None => {
                for k in 0..n_rpcs {
                    faults.push(Fault { rpc: k, polls_down: (k % 3) as u32, cut_reply: false });
                    if k % 2 == 0 {
                        faults.push(Fault { rpc: k, polls_down: 0, cut_reply: true });
                    }
                }
                if faults.len() > max_faults {
                    let step = faults.len() as f64 / max_faults as f64;
                    faults = (0..max_faults).map(|q| faults[(q as f64 * step) as usize].clone()).collect();
                }
            }
        }
        let cfg = case.cfg.clone();
        let results: std::sync::Mutex<Vec<(usize, FaultRun)>> = std::sync::Mutex::new(Vec::new());
        let next = std::sync::atomic::AtomicUsize::new(0);
        std::thread::scope(|sc| {
            for _ in 0..parallel.max(1).min(faults.len().max(1)) {
                sc.spawn(|| loop {
                    let q = next.fetch_add(1, Ordering::SeqCst);
                    if q >= faults.len() {
                        break;
                    }
                    // a run whose teosd lost a listening port to a concurrent process is simply repeated
                    let mut attempt = 0;
                    let fr = loop {
                        attempt += 1;
                        let mut world = world0.fork();
                        let fr = run_faulted(&mut world, &cfg, &dir, &format!("{id}-{q}"), &case.ops, &case.snaps, &faults[q], case.salt);
                        if attempt >= 3 || !fr.inconclusive.as_deref().map_or(false, |w| w.contains("listening port")) {
                            break fr;
                        }
                    };
                    results.lock().unwrap().push((q, fr));
                });
            }
        });
        let mut results = results.into_inner().unwrap();
        results.sort_by_key(|x| x.0);
        let r = rep.p("C12");
        for (q, fr) in results {
            let f = &faults[q];
            r.eval();
            if let Some(why) = fr.inconclusive {
                r.inconclusive += 1;
                r.note(format!("e3o history {id} fault {f:?}: {why}"));
                continue;
            }
            if fr.hit {
                r.nontrivial(fnv(format!("e3o:{id}:{f:?}").as_bytes()));
                r.count(&format!("e3o_outage_during[{}]", fr.during.clone().unwrap_or_default()), 1);
                r.count("e3o_unavailable_answers_checked", fr.unavailable_answers);
                r.count("e3o_polls_during_outage", fr.polls_during_outage);
                r.max("e3o_max_blocked_ms", fr.blocked_ms);
            } else {
                r.count("e3o_faults_not_reached", 1);
            }
            if let Some((sig, detail)) = fr.violation {
                let replay = json!({"engine":"e3o","seed":seed,"case":id,"fault":{"outage":[f.rpc, f.polls_down, f.cut_reply]},"ops": case.ops.iter().map(|o| o.to_json()).collect::<Vec<_>>()});
                r.violation(sig, format!("e3o history {id} (real teosd): {detail}"), replay);
            }
            r.sample(|| json!({"engine":"e3o","history": id, "fault": format!("{f:?}"), "during": fr.during, "blocked_ms": fr.blocked_ms}));
        }
    }
    std::fs::remove_dir_all(&dir).ok();
}
