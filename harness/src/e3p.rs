//! The two real binaries against each other: `watchtower-client` (driven over its plugin protocol)
//! registered with a real `teosd` (bootstrapped against the fake bitcoind). What the client records
//! and reports must agree with what the tower holds and does, over the wire both really speak:
//!
//!  * registration and appointments: every receipt the client stored verifies under the tower's id; the
//!    tower holds, for each revocation, a blob that decrypts under the commitment txid to exactly the
//!    penalty the client was given (C16 / C17 end to end);
//!  * `getappointment` through the client: being_watched with the same locator, and after the breach is
//!    mined and answered, dispute_responded with exactly the dispute txid, penalty txid and raw
//!    penalty (the tracker encoding of C16 over the real wire);
//!  * `getsubscriptioninfo` through the client equals the tower's users row;
//!  * the tower process is killed, a revocation arrives (kept pending), the tower comes back on the
//!    same address: the client delivers by itself within its retry / auto-retry delays (C13 with a
//!    real tower) and ends with a verifying receipt.

use crate::chain::{lock, SimChain};
use crate::e4::{read_rows, Plugin, PluginOpts, Revocation};
use crate::gen;
use crate::remote::{free_port, run_remote_session, FakeBitcoind, StopMode, TeosdOpts};
use crate::report::Report;
use crate::rng::{fnv, Rng};
use crate::snap::Snap;
use crate::tower::{Api, TowerCfg};
use crate::world::{Chan, TxRef, World};
use serde_json::{json, Value};
use std::path::PathBuf;
use std::sync::Arc;
use std::time::Duration;
use teos_common::cryptography;
use teos_common::receipts::AppointmentReceipt;

fn new_revocation(world: &mut World, rng: &mut Rng, n: u32) -> (Revocation, usize) {
    let dispute = gen::small_tx(rng);
    let txid = dispute.compute_txid();
    let pad = rng.usize(80);
    let penalty = gen::spend_of(rng, &txid, pad);
    let blob = cryptography::encrypt(&penalty, &txid).unwrap();
    let locator = AsRef::<[u8]>::as_ref(&txid)[..16].to_vec();
    lock(&world.node.state).parent.insert(penalty.compute_txid(), txid);
    world.chans.push(Chan { locator: locator.clone(), dispute, dtxid: txid });
    (Revocation { locator: hex::encode(&locator), txid, penalty, n, blob }, world.chans.len() - 1)
}

pub fn run(seed: u64, shard: u64, nshards: u64, cases: u64, only: Option<u64>, rep: &mut Report) {
    let dir = PathBuf::from(format!("/dev/shm/tv-e3p-{}", std::process::id()));
    std::fs::create_dir_all(&dir).unwrap();
    let ids: Vec<u64> = match only {
        Some(c) => vec![c],
        None => (0..cases).map(|i| 11_000_000 + shard + i * nshards).collect(),
    };
    let rt = tokio::runtime::Builder::new_multi_thread().worker_threads(2).enable_all().build().unwrap();
    for id in ids {
        let mut rng = Rng::stream(seed, id, 0xE3B);
        let start_h = 102 + rng.below(5) as u32;
        let mut world = World::new(&mut rng, 1, 1, start_h);
        let datadir = dir.join(format!("pair-{id}"));
        let cdir = dir.join(format!("pair-{id}-client"));
        let _ = std::fs::remove_dir_all(&datadir);
        let _ = std::fs::remove_dir_all(&cdir);
        std::fs::create_dir_all(&datadir).unwrap();
        let cfg = TowerCfg { slots: 100, duration: 500, grace: 6, db_path: datadir.join("regtest").join("teos_db.sql3") };
        let ports = (free_port(), free_port(), free_port());
        let topts = TeosdOpts { fixed_ports: Some(ports), ..Default::default() };
        let chain: Arc<SimChain> = Arc::new(world.simchain());
        let btc = FakeBitcoind::start(chain, world.node.clone());
        let popts = PluginOpts { max_retry_time: 2, auto_retry_delay: 3, max_interval: 1, abort_at: None };
        let replay = json!({"engine":"e3p","seed":seed,"case":id});
        let mut viols: Vec<(String, String)> = Vec::new();
        let mut inconclusive: Option<String> = None;
        let mut plugin: Option<Plugin> = None;
        let mut revs: Vec<(Revocation, usize)> = Vec::new();
        let n_rev = 2 + rng.usize(3);
        let mut tid = String::new();
        let mut checked = (0u64, 0u64, 0u64); // receipts verified, getappointment answers compared, trackers compared
        // ---- first life of the tower
        let res = run_remote_session(&btc, &datadir, &cfg, &topts, StopMode::Kill, |s| {
            let tower_id = s.tower_id;
            tid = hex::encode(tower_id.to_vec());
            let api_port = match &s.api {
                Api::Remote(r) => r.http.port(),
                _ => 0,
            };
            rt.block_on(async {
                let mut p = match Plugin::start(&cdir, &popts).await {
                    Ok(p) => p,
                    Err(e) => {
                        inconclusive = Some(format!("client did not start: {e}"));
                        return;
                    }
                };
                match p.call("registertower", json!([format!("{tid}@127.0.0.1:{api_port}")]), 20).await {
                    Ok(_) => {}
                    Err(e) => {
                        viols.push(("C16:pair:registration-failed".into(), format!("pair {id}: the real client could not register with the real tower: {e:?}; client stderr {:?}", p.panic_text())));
                        plugin = Some(p);
                        return;
                    }
                }
                for k in 0..n_rev {
                    let (rev, chan) = new_revocation(&mut world, &mut rng, k as u32 + 1);
                    if let Err(e) = p.revoke(&rev, 25).await {
                        viols.push(("C16:pair:hook-unanswered".into(), format!("pair {id}: revocation {k} got no answer: {e:?}")));
                    }
                    revs.push((rev, chan));
                }
                tokio::time::sleep(Duration::from_millis(300)).await;
                // what the client recorded vs what the tower holds
                let rows = read_rows(&cdir);
                let snap = Snap::read(&cfg.db_path).unwrap_or_default();
                for (rev, _) in &revs {
                    match rows.as_ref().and_then(|r| r.receipts.get(&(rev.locator.clone(), tid.clone()))) {
                        None => viols.push(("C16:pair:no-receipt".into(), format!("pair {id}: the tower was up and accepting, yet the client has no receipt for {}", rev.locator))),
                        Some((usig, tsig, start)) => {
                            if !AppointmentReceipt::with_signature(usig.clone(), *start, tsig.clone()).verify(&tower_id) {
                                viols.push(("C16:pair:receipt-does-not-verify".into(), format!("pair {id}: the receipt the client stored for {} does not verify under the tower's id", rev.locator)));
                            } else {
                                checked.0 += 1;
                            }
                        }
                    }
                    let held: Vec<_> = snap.appts.values().filter(|a| hex::encode(&a.locator) == rev.locator).collect();
                    if held.len() != 1 {
                        viols.push(("C16:pair:tower-does-not-hold".into(), format!("pair {id}: the tower holds {} appointments for {}", held.len(), rev.locator)));
                    } else {
                        match cryptography::decrypt(&held[0].blob, &rev.txid) {
                            Ok(tx) if tx == rev.penalty => {}
                            other => viols.push(("C16:pair:tower-holds-another-blob".into(), format!("pair {id}: what the tower stored for {} does not decrypt to the penalty the client was given ({:?})", rev.locator, other.map(|t| t.compute_txid())))),
                        }
                    }
                }
                // getappointment through the client: being watched
                let (rev0, chan0) = revs[0].clone();
                match p.call("getappointment", json!([tid, rev0.locator]), 20).await {
                    Ok(v) => {
                        let r = v.get("result").cloned().unwrap_or(v.clone());
                        if r["status"].as_str() != Some("being_watched") || r["appointment"]["locator"].as_str() != Some(rev0.locator.as_str()) {
                            viols.push(("C16:pair:getappointment-watched".into(), format!("pair {id}: getappointment through the client for a watched appointment answered {r}")));
                        } else {
                            checked.1 += 1;
                        }
                    }
                    Err(e) => viols.push(("C16:pair:getappointment-failed".into(), format!("pair {id}: {e:?}"))),
                }
                // the breach is mined, the tower answers it
                world.mine(&[vec![TxRef::Dispute(chan0)]], id);
                if let Err(e) = btc.grant_poll(Duration::from_secs(60), &mut || true) {
                    inconclusive = Some(format!("poll: {e}"));
                    plugin = Some(p);
                    return;
                }
                match p.call("getappointment", json!([tid, rev0.locator]), 20).await {
                    Ok(v) => {
                        let r = v.get("result").cloned().unwrap_or(v.clone());
                        let a = &r["appointment"];
                        let want = (rev0.txid.to_string(), rev0.penalty.compute_txid().to_string(), hex::encode(bitcoin::consensus::serialize(&rev0.penalty)));
                        if r["status"].as_str() != Some("dispute_responded") || a["dispute_txid"].as_str() != Some(want.0.as_str()) || a["penalty_txid"].as_str() != Some(want.1.as_str()) || a["penalty_rawtx"].as_str() != Some(want.2.as_str()) {
                            viols.push(("C16:pair:getappointment-responded".into(), format!("pair {id}: after the breach was answered, getappointment through the client says {r}; expected dispute_responded with dispute {} penalty {}", want.0, want.1)));
                        } else {
                            checked.2 += 1;
                        }
                    }
                    Err(e) => viols.push(("C16:pair:getappointment-failed".into(), format!("pair {id}: {e:?}"))),
                }
                // subscription info through the client vs the tower's row
                let snap = Snap::read(&cfg.db_path).unwrap_or_default();
                if let (Ok(v), Some(row)) = (p.call("getsubscriptioninfo", json!([tid]), 20).await, snap.users.values().next()) {
                    let r = v.get("result").cloned().unwrap_or(v.clone());
                    if r["available_slots"].as_u64() != Some(row.available_slots as u64) || r["subscription_expiry"].as_u64() != Some(row.expiry as u64) {
                        viols.push(("C16:pair:subscription-info".into(), format!("pair {id}: getsubscriptioninfo through the client says {r}, the tower's row says (slots {}, expiry {})", row.available_slots, row.expiry)));
                    }
                }
                plugin = Some(p);
            });
        });
        if let Err(e) = &res {
            inconclusive = Some(format!("teosd did not start: {e:?}"));
        }
        // ---- the tower is gone (killed); one more revocation; the tower comes back on the same address
        let mut delivered_ms = 0u64;
        if inconclusive.is_none() && viols.is_empty() {
            if let Some(p) = plugin.as_mut() {
                let (rev, chan) = new_revocation(&mut world, &mut rng, 99);
                let answered = rt.block_on(p.revoke(&rev, 25)).is_ok();
                if !answered {
                    viols.push(("C13:pair:hook-unanswered".into(), format!("pair {id}: a revocation arriving while the tower process is dead got no answer")));
                } else {
                    revs.push((rev.clone(), chan));
                    let res2 = run_remote_session(&btc, &datadir, &cfg, &topts, StopMode::Kill, |s| {
                        let tower_id = s.tower_id;
                        rt.block_on(async {
                            let t0 = std::time::Instant::now();
                            let bound = Duration::from_secs(popts.max_retry_time + popts.auto_retry_delay + 2 + 12);
                            let mut ok = false;
                            let mut last = Value::Null;
                            while t0.elapsed() < bound {
                                tokio::time::sleep(Duration::from_millis(300)).await;
                                if let Ok(v) = p.call("listtowers", json!([]), 10).await {
                                    let r = v.get("result").cloned().unwrap_or(v.clone());
                                    last = r[&tid].clone();
                                    if last["status"].as_str() == Some("reachable") && last["pending_appointments"].as_array().map_or(false, |a| a.is_empty()) {
                                        ok = true;
                                        break;
                                    }
                                }
                            }
                            delivered_ms = t0.elapsed().as_millis() as u64;
                            if !ok {
                                viols.push(("C13:pair:not-delivered-after-tower-restart".into(), format!("pair {id}: {}s after the real tower came back on the same address the client still shows {last}", bound.as_secs())));
                                return;
                            }
                            let rows = read_rows(&cdir);
                            match rows.as_ref().and_then(|r| r.receipts.get(&(rev.locator.clone(), tid.clone()))) {
                                Some((usig, tsig, start)) if AppointmentReceipt::with_signature(usig.clone(), *start, tsig.clone()).verify(&tower_id) => checked.0 += 1,
                                other => viols.push(("C13:pair:no-valid-receipt-after-recovery".into(), format!("pair {id}: shown reachable with nothing pending, but the receipt for the retried appointment is {:?}", other.map(|x| x.2)))),
                            }
                            let snap = Snap::read(&cfg.db_path).unwrap_or_default();
                            if !snap.appts.values().any(|a| hex::encode(&a.locator) == rev.locator) {
                                viols.push(("C13:pair:tower-does-not-hold-retried".into(), format!("pair {id}: the tower does not hold the appointment the client says it delivered")));
                            }
                        });
                    });
                    if let Err(e) = res2 {
                        inconclusive = Some(format!("teosd did not restart: {e:?}"));
                    }
                }
            }
        }
        if let Some(mut p) = plugin.take() {
            if let Some(pt) = p.panic_text() {
                viols.push(("C16:pair:client-panic".into(), format!("pair {id}: {pt}")));
            }
            rt.block_on(p.kill());
        }
        btc.shutdown();
        let _ = std::fs::remove_dir_all(&datadir);
        let _ = std::fs::remove_dir_all(&cdir);
        for prop in ["C16", "C13"] {
            let r = rep.p(prop);
            r.eval();
            if let Some(w) = &inconclusive {
                r.inconclusive += 1;
                r.note(format!("e3p pair {id}: {w}"));
                continue;
            }
            r.count("pair_cases", 1);
            r.count("pair_receipts_verified", checked.0);
            r.count("pair_getappointment_watched_compared", checked.1);
            r.count("pair_getappointment_responded_compared", checked.2);
            r.max("pair_max_delivery_ms_after_tower_restart", delivered_ms);
            r.nontrivial(fnv(format!("pair:{id}").as_bytes()));
            r.sample(|| json!({"engine":"e3p","case": id, "revocations": revs.len(), "delivered_ms_after_restart": delivered_ms}));
        }
        if inconclusive.is_none() {
            for (sig, detail) in viols {
                let prop = if sig.starts_with("C13") { "C13" } else { "C16" };
                rep.p(prop).violation(sig, detail, replay.clone());
            }
        }
    }
    std::fs::remove_dir_all(&dir).ok();
}
